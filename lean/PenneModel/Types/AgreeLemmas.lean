import PenneModel.Types.Agree
/-
  C07 — theorems about type agreement (Types/Agree.lean), for ALL types (any nesting, any lengths and names).
-/
namespace Types
namespace Ty

theorem isLike_refl : ∀ t : Ty, isLike t t = true
  | .pointer t => by simp [isLike, isLike_refl t]
  | .view t => by simp [isLike, isLike_refl t]
  | .void => by simp [isLike]
  | .prim _ => by simp [isLike]
  | .array _ _ => by simp [isLike]
  | .arrayNamed _ _ => by simp [isLike]
  | .slice _ => by simp [isLike]
  | .slicePtr _ => by simp [isLike]
  | .endless _ => by simp [isLike]
  | .arraylike _ => by simp [isLike]
  | .struct _ => by simp [isLike]
  | .word _ _ => by simp [isLike]
  | .unresolved _ => by simp [isLike]

theorem conc_refl : ∀ t : Ty, conc t t = true
  | .void => by simp [conc]
  | .prim _ => by simp [conc]
  | .array t n => by simp [conc, conc_refl t]
  | .arrayNamed t x => by simp [conc, conc_refl t]
  | .slice t => by simp [conc, conc_refl t]
  | .slicePtr t => by simp [conc, conc_refl t]
  | .endless t => by simp [conc, conc_refl t]
  | .arraylike t => by simp [conc, conc_refl t]
  | .struct _ => by simp [conc]
  | .word _ _ => by simp [conc]
  | .unresolved _ => by simp [conc]
  | .pointer t => by simp [conc, conc_refl t]
  | .view t => by simp [conc, conc_refl t]

/-- against a fully known type, "is like" is identity -/
theorem isLike_concrete : ∀ (a b : Ty), Concrete b = true → isLike a b = true → a = b
  | .pointer t, b, hb, h => by
    cases b with
    | pointer t' =>
      simp only [isLike] at h
      simp only [Concrete] at hb
      rw [isLike_concrete t t' hb h]
    | _ => simp_all [isLike, Concrete]
  | .view t, b, hb, h => by
    cases b with
    | view t' =>
      simp only [isLike] at h
      simp only [Concrete] at hb
      rw [isLike_concrete t t' hb h]
    | _ => simp_all [isLike, Concrete]
  | .void, b, hb, h => by cases b <;> simp_all [isLike, Concrete]
  | .prim _, b, hb, h => by cases b <;> simp_all [isLike, Concrete]
  | .array _ _, b, hb, h => by cases b <;> simp_all [isLike, Concrete]
  | .arrayNamed _ _, b, hb, h => by cases b <;> simp_all [isLike, Concrete]
  | .slice _, b, hb, h => by cases b <;> simp_all [isLike, Concrete]
  | .slicePtr _, b, hb, h => by cases b <;> simp_all [isLike, Concrete]
  | .endless _, b, hb, h => by cases b <;> simp_all [isLike, Concrete]
  | .arraylike _, b, hb, h => by cases b <;> simp_all [isLike, Concrete]
  | .struct _, b, hb, h => by cases b <;> simp_all [isLike, Concrete]
  | .word _ _, b, hb, h => by cases b <;> simp_all [isLike, Concrete]
  | .unresolved _, b, hb, h => by cases b <;> simp_all [isLike, Concrete]

/-- against a fully known type, "can be declared as" is identity -/
theorem declaredAs_concrete (a b : Ty) (hb : Concrete b = true) (h : canBeDeclaredAs a b = true) : a = b := by
  cases a <;> cases b <;> simp_all [canBeDeclaredAs, Concrete]
  all_goals (rename_i d; cases d <;> simp_all [Concrete])

/-- **a type is a concretization of a fully known type only if it is that type**: unification never converts -/
theorem conc_concrete : ∀ (a b : Ty), Concrete b = true → conc a b = true → a = b
  | .void, b, _, h => by cases b <;> simp_all [conc]
  | .prim _, b, _, h => by cases b <;> simp_all [conc]
  | .struct _, b, hb, h => by cases b <;> simp_all [conc, Concrete]
  | .word _ _, b, hb, h => by cases b <;> simp_all [conc, Concrete]
  | .unresolved _, b, _, h => by cases b <;> simp_all [conc]
  | .array t n, b, hb, h => by
    cases b with
    | array t' n' =>
      simp only [conc, Bool.and_eq_true, beq_iff_eq] at h
      simp only [Concrete] at hb
      rw [h.1, conc_concrete t t' hb h.2]
    | _ => simp_all [conc, isLike, Concrete]
  | .arrayNamed t x, b, hb, h => by
    cases b with
    | arrayNamed t' x' =>
      simp only [conc, Bool.and_eq_true, beq_iff_eq] at h
      simp only [Concrete] at hb
      rw [h.1, conc_concrete t t' hb h.2]
    | _ => simp_all [conc, isLike, Concrete]
  | .slice t, b, hb, h => by
    cases b with
    | slice t' =>
      simp only [conc] at h
      simp only [Concrete] at hb
      rw [conc_concrete t t' hb h]
    | _ => simp_all [conc, Concrete]
  | .slicePtr t, b, hb, h => by
    cases b with
    | slicePtr t' =>
      simp only [conc] at h
      simp only [Concrete] at hb
      rw [conc_concrete t t' hb h]
    | pointer d => cases d <;> simp_all [conc, Concrete]
    | _ => simp_all [conc, Concrete]
  | .endless t, b, hb, h => by
    cases b with
    | endless t' =>
      simp only [conc] at h
      simp only [Concrete] at hb
      rw [conc_concrete t t' hb h]
    | _ => simp_all [conc, isLike, Concrete]
  | .arraylike t, b, hb, h => by
    cases b <;> simp_all [conc, Concrete]
  | .pointer t, b, hb, h => by
    cases b with
    | pointer t' =>
      simp only [conc] at h
      simp only [Concrete] at hb
      rw [conc_concrete t t' hb h]
    | _ => simp_all [conc, Concrete]
  | .view t, b, hb, h => by
    cases b with
    | view t' =>
      simp only [conc] at h
      simp only [Concrete] at hb
      rw [conc_concrete t t' hb h]
    | _ => simp_all [conc, Concrete]


/-- `equals` is identity once char8 is read as u8: the only thing it forgives is that alias, at any depth -/
theorem equals_iff : ∀ (a b : Ty), equals a b = true ↔ unalias a = unalias b
  | .void, b => by cases b <;> simp [equals, unalias, isAliasOf] <;> (rename_i p; cases p <;> simp [unalias])
  | .prim p, b => by
    cases b with
    | prim q => cases p <;> cases q <;> simp [equals, unalias, isAliasOf]
    | _ => cases p <;> simp [equals, unalias, isAliasOf]
  | .unresolved i, b => by cases b <;> simp [equals, unalias, isAliasOf] <;> (rename_i p; cases p <;> simp [unalias])
  | .struct i, b => by
    cases b <;> simp [equals, unalias] <;> first | (intro h; exact h.symm) | (rename_i p; cases p <;> simp [unalias]) | (constructor <;> intro h <;> exact h.symm)
  | .word i s, b => by
    cases b <;> simp [equals, unalias] <;> first | (rename_i p; cases p <;> simp [unalias]) | (constructor <;> intro h <;> simp [h])
  | .array t n, b => by
    cases b with
    | array t' n' => simp [equals, unalias, equals_iff t t', and_comm]
    | prim p => cases p <;> simp [equals, unalias]
    | _ => simp [equals, unalias]
  | .arrayNamed t n, b => by
    cases b with
    | arrayNamed t' n' => simp [equals, unalias, equals_iff t t', and_comm]
    | prim p => cases p <;> simp [equals, unalias]
    | _ => simp [equals, unalias]
  | .slice t, b => by
    cases b with
    | slice t' => simp [equals, unalias, equals_iff t t']
    | prim p => cases p <;> simp [equals, unalias]
    | _ => simp [equals, unalias]
  | .slicePtr t, b => by
    cases b with
    | slicePtr t' => simp [equals, unalias, equals_iff t t']
    | prim p => cases p <;> simp [equals, unalias]
    | _ => simp [equals, unalias]
  | .endless t, b => by
    cases b with
    | endless t' => simp [equals, unalias, equals_iff t t']
    | prim p => cases p <;> simp [equals, unalias]
    | _ => simp [equals, unalias]
  | .arraylike t, b => by
    cases b with
    | arraylike t' => simp [equals, unalias, equals_iff t t']
    | prim p => cases p <;> simp [equals, unalias]
    | _ => simp [equals, unalias]
  | .pointer t, b => by
    cases b with
    | pointer t' => simp [equals, unalias, equals_iff t t']
    | prim p => cases p <;> simp [equals, unalias]
    | _ => simp [equals, unalias]
  | .view t, b => by
    cases b with
    | view t' => simp [equals, unalias, equals_iff t t']
    | prim p => cases p <;> simp [equals, unalias]
    | _ => simp [equals, unalias]


/-- the element type of something that holds elements -/
def elemOf : Ty → Option Ty
  | .array t _ | .arrayNamed t _ | .slice t | .slicePtr t => some t
  | _ => none

/-- the element type a value must have to be seen through this slice / view / pointer to an endless array -/
def seenElem : Ty → Option Ty
  | .slice t => some t
  | .view (.endless t) => some t
  | .pointer (.endless t) => some t
  | _ => none

/-- **the coercions are exactly the documented ones**: something that holds elements, into a slice / a view of an endless
    array / a pointer to an endless array of the same element type (up to the char8 / u8 alias) — or a structure into a
    view of that same structure.  In particular the target is never the type itself and never a primitive. -/
theorem coerceInto_shape (a b : Ty) (h : coerceInto a b = true) :
    (∃ ea eb, elemOf a = some ea ∧ seenElem b = some eb ∧ unalias ea = unalias eb) ∨ (∃ i, a = .struct i ∧ b = .view (.struct i)) := by
  cases a <;> cases b <;> simp [coerceInto] at h
  all_goals first
    | exact Or.inl ⟨_, _, rfl, rfl, (equals_iff _ _).mp h⟩
    | (rename_i d; cases d <;> simp at h
       all_goals first
         | exact Or.inl ⟨_, _, rfl, rfl, (equals_iff _ _).mp h⟩
         | exact Or.inr ⟨_, rfl, by rw [h]⟩)

theorem coerceInto_prim (a : Ty) (p : Prim) : coerceInto a (.prim p) = false := by
  cases a <;> simp [coerceInto]

theorem coerceInto_irrefl (a : Ty) : coerceInto a a = false := by
  cases a <;> simp [coerceInto]

/-- **unification of two fully known types**: `do_update_symbol` succeeds only when the two types are identical, or when the
    new type was written by the programmer and coerces into the known one by a documented coercion -/
theorem update_concrete (ot vt r : Ty) (sa na : Bool) (ho : Concrete ot = true) (hv : Concrete vt = true)
    (h : update ot vt sa na = some r) :
    (ot = vt ∧ r = ot) ∨ (na = true ∧ coerceInto vt ot = true ∧ r = vt) := by
  unfold update at h
  split at h
  · rename_i h1
    simp only [Bool.or_eq_true, beq_iff_eq] at h1
    left
    simp only [Option.some.injEq] at h
    rcases h1 with h1 | h1
    · exact ⟨h1, h.symm⟩
    · exact ⟨conc_concrete ot vt hv h1, h.symm⟩
  · split at h
    · rename_i h2
      simp only [Bool.and_eq_true] at h2
      simp only [Option.some.injEq] at h
      have := declaredAs_concrete vt ot ho h2.2
      left; exact ⟨this.symm, by rw [← h, this]⟩
    · split at h
      · rename_i h3
        simp only [Bool.and_eq_true, Bool.or_eq_true] at h3
        simp only [Option.some.injEq] at h
        rcases h3.2 with h4 | h4
        · have := conc_concrete vt ot ho h4
          left; exact ⟨this.symm, by rw [← h, this]⟩
        · right; exact ⟨h3.1, h4, h.symm⟩
      · cases h

/-- **no implicit conversion between primitive types**, whatever was declared and whatever was inferred -/
theorem update_prims (p q : Prim) (r : Ty) (sa na : Bool) (h : update (.prim p) (.prim q) sa na = some r) : p = q := by
  rcases update_concrete _ _ r sa na rfl rfl h with ⟨h1, _⟩ | ⟨_, h2, _⟩
  · injection h1
  · rw [coerceInto_prim] at h2; cases h2

/-- the length of an array is part of its type -/
theorem update_array_lengths (t t' r : Ty) (n m : Nat) (sa na : Bool) (ht : Concrete t = true) (ht' : Concrete t' = true)
    (h : update (.array t n) (.array t' m) sa na = some r) : n = m ∧ t = t' := by
  rcases update_concrete _ _ r sa na (by simpa [Concrete] using ht) (by simpa [Concrete] using ht') h with ⟨h1, _⟩ | ⟨_, h2, _⟩
  · injection h1 with h1 h2; exact ⟨h2, h1⟩
  · simp [coerceInto] at h2

/-! the statements are not vacuous -/
example : update (.array (.prim .i32) 3) (.array (.prim .i32) 3) true false = some (.array (.prim .i32) 3) := by decide
example : update (.array (.prim .i32) 3) (.array (.prim .i32) 2) true true = none := by decide
example : update (.prim .i32) (.prim .u8) true true = none := by decide
-- a declared slice receives an array: the documented coercion (the new type is the authoritative one here)
example : update (.slice (.prim .i32)) (.array (.prim .i32) 3) false true = some (.array (.prim .i32) 3) := by decide
-- placeholders are filled in
example : update (.arraylike (.prim .i32)) (.array (.prim .i32) 3) false false = none := by decide
example : update (.array (.prim .i32) 3) (.arraylike (.prim .i32)) false false = some (.array (.prim .i32) 3) := by decide
example : update (.struct 4) (.unresolved none) false false = some (.struct 4) := by decide


/-! ### autoderef never takes an address -/

theorem holdsAddress_unalias : ∀ t : Ty, holdsAddress (unalias t) = holdsAddress t
  | .void => rfl
  | .prim p => by cases p <;> rfl
  | .array t n => by simp [unalias, holdsAddress, holdsAddress_unalias t]
  | .arrayNamed t x => by simp [unalias, holdsAddress, holdsAddress_unalias t]
  | .slice t => by simp [unalias, holdsAddress, holdsAddress_unalias t]
  | .slicePtr t => by simp [unalias, holdsAddress]
  | .endless t => by simp [unalias, holdsAddress, holdsAddress_unalias t]
  | .arraylike t => by simp [unalias, holdsAddress, holdsAddress_unalias t]
  | .struct _ => rfl
  | .word _ _ => rfl
  | .unresolved _ => rfl
  | .pointer t => by simp [unalias, holdsAddress]
  | .view t => by simp [unalias, holdsAddress, holdsAddress_unalias t]

theorem equals_holdsAddress (a b : Ty) (h : equals a b = true) : holdsAddress b = holdsAddress a := by
  have := (equals_iff a b).mp h
  rw [← holdsAddress_unalias a, ← holdsAddress_unalias b, this]

theorem coerceInto_holdsAddress (a b : Ty) (h : coerceInto a b = true) (hb : holdsAddress b = true) : holdsAddress a = true := by
  have viaElem : ∀ e e' : Ty, equals e e' = true → holdsAddress e' = true → holdsAddress e = true :=
    fun e e' he hh => by rw [← equals_holdsAddress e e' he]; exact hh
  cases a with
  | array e n =>
    cases b with
    | slice e' => exact viaElem e e' (by simpa [coerceInto] using h) (by simpa [holdsAddress] using hb)
    | view d =>
      cases d with
      | endless e' => exact viaElem e e' (by simpa [coerceInto] using h) (by simpa [holdsAddress] using hb)
      | _ => simp [coerceInto] at h
    | _ => simp [coerceInto] at h
  | arrayNamed e x =>
    cases b with
    | slice e' => exact viaElem e e' (by simpa [coerceInto] using h) (by simpa [holdsAddress] using hb)
    | view d =>
      cases d with
      | endless e' => exact viaElem e e' (by simpa [coerceInto] using h) (by simpa [holdsAddress] using hb)
      | _ => simp [coerceInto] at h
    | _ => simp [coerceInto] at h
  | slice e =>
    cases b with
    | view d =>
      cases d with
      | endless e' => exact viaElem e e' (by simpa [coerceInto] using h) (by simpa [holdsAddress] using hb)
      | _ => simp [coerceInto] at h
    | _ => simp [coerceInto] at h
  | slicePtr e => rfl
  | struct i =>
    cases b with
    | view d =>
      simp only [coerceInto, beq_iff_eq] at h
      subst h
      simp [holdsAddress] at hb
    | _ => simp [coerceInto] at h
  | void => simp [coerceInto] at h
  | prim _ => simp [coerceInto] at h
  | endless _ => simp [coerceInto] at h
  | arraylike _ => simp [coerceInto] at h
  | word _ _ => simp [coerceInto] at h
  | unresolved _ => simp [coerceInto] at h
  | pointer _ => simp [coerceInto] at h
  | view _ => simp [coerceInto] at h

theorem subAutoderef_holdsAddress : ∀ (a b : Ty), subAutoderef a b = true → holdsAddress b = true → holdsAddress a = true
  | .pointer _, _, _, _ => rfl
  | .view d, b, h, hb => by
    simp only [subAutoderef, Bool.or_eq_true] at h
    simp only [holdsAddress]
    rcases h with (h | h) | h
    · rw [← equals_holdsAddress d b h]; exact hb
    · exact subAutoderef_holdsAddress d b h hb
    · cases b with
      | view t => exact subAutoderef_holdsAddress d t h (by simpa [holdsAddress] using hb)
      | _ => simp at h
  | .void, _, h, _ => by simp [subAutoderef] at h
  | .prim _, _, h, _ => by simp [subAutoderef] at h
  | .array _ _, _, h, _ => by simp [subAutoderef] at h
  | .arrayNamed _ _, _, h, _ => by simp [subAutoderef] at h
  | .slice _, _, h, _ => by simp [subAutoderef] at h
  | .slicePtr _, _, _, _ => rfl
  | .endless _, _, h, _ => by simp [subAutoderef] at h
  | .arraylike _, _, h, _ => by simp [subAutoderef] at h
  | .struct _, _, h, _ => by simp [subAutoderef] at h
  | .word _ _, _, h, _ => by simp [subAutoderef] at h
  | .unresolved _, _, h, _ => by simp [subAutoderef] at h

/-- **C08: no address is ever taken implicitly.**  If a reference of type `a` may be read as `b` (autoderef, with the
    array-to-slice/view coercions), every pointer in `b` comes from a pointer in `a`: a value that holds no address cannot
    become one that does.  (The explicit `&` is the only way to make a pointer: E513 otherwise.) -/
theorem autoderef_takes_no_address (a b : Ty) (h : autoderef a b = true) (hb : holdsAddress b = true) : holdsAddress a = true := by
  cases a with
  | pointer d => rfl
  | slicePtr e => rfl
  | view d =>
    simp only [autoderef, Bool.or_eq_true] at h
    simp only [holdsAddress]
    rcases h with ((h | h) | h) | h
    · have := equals_holdsAddress _ _ h; simp only [holdsAddress] at this; rw [← this]; exact hb
    · rw [← equals_holdsAddress d b h]; exact hb
    · exact subAutoderef_holdsAddress d b h hb
    · cases b with
      | view t => exact subAutoderef_holdsAddress d t h (by simpa [holdsAddress] using hb)
      | _ => simp at h
  | array e n =>
    simp only [autoderef, Bool.or_eq_true] at h
    rcases h with h | h
    · rw [← equals_holdsAddress _ _ h]; exact hb
    · exact coerceInto_holdsAddress _ _ h hb
  | arrayNamed e x =>
    simp only [autoderef, Bool.or_eq_true] at h
    rcases h with h | h
    · rw [← equals_holdsAddress _ _ h]; exact hb
    · exact coerceInto_holdsAddress _ _ h hb
  | slice e =>
    simp only [autoderef, Bool.or_eq_true] at h
    rcases h with h | h
    · rw [← equals_holdsAddress _ _ h]; exact hb
    · exact coerceInto_holdsAddress _ _ h hb
  | endless e =>
    simp only [autoderef, Bool.or_eq_true] at h
    rcases h with h | h
    · rw [← equals_holdsAddress _ _ h]; exact hb
    · exact coerceInto_holdsAddress _ _ h hb
  | struct i =>
    simp only [autoderef, Bool.or_eq_true] at h
    rcases h with h | h
    · rw [← equals_holdsAddress _ _ h]; exact hb
    · exact coerceInto_holdsAddress _ _ h hb
  | void => simp [autoderef] at h
  | prim _ => simp [autoderef] at h
  | arraylike _ => simp [autoderef] at h
  | word _ _ => simp [autoderef] at h
  | unresolved _ => simp [autoderef] at h

-- a pointer to an array reads as a slice pointer; an array never does
example : autoderef (.pointer (.array (.prim .i32) 3)) (.slicePtr (.prim .i32)) = true := by decide
example : autoderef (.array (.prim .i32) 3) (.slicePtr (.prim .i32)) = false := by decide
example : autoderef (.array (.prim .i32) 3) (.slice (.prim .i32)) = true := by decide
example : autoderef (.pointer (.pointer (.prim .i32))) (.prim .i32) = true := by decide

end Ty
end Types
