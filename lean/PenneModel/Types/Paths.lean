import PenneModel.Types.AgreeLemmas
/-
  C01 (first sentence) for access paths: every access path that the language allows on a variable — any sequence of
  `[index]` and `.member` steps, through any nesting of arrays, structures, pointers and views — is accepted by the typer's
  unification.

  Model of `typer.rs: analyze_assignment_steps` (the elaboration of what the programmer wrote: pointers and views are
  dereferenced automatically before every step, slices are opened) and of `build_type_of_ref1` (the type that the typer
  then demands of the base variable: what is known about the value, wrapped once per step, with placeholders for
  everything the path does not determine).  The typer accepts the access when `do_update_symbol` unifies the type of the
  variable with that demanded type, i.e. when `variable type == demanded || variable_type.can_be_concretization_of(demanded)`.
-/
namespace Types
namespace Ty

/-- what the programmer writes after the variable -/
inductive UStep where
  | elem
  | member (m : Nat)
  deriving DecidableEq, Repr

/-- the elaborated steps (common.rs `ReferenceStep`) -/
inductive Step where
  | elem
  | member (m : Nat)
  | deref      -- Autoderef
  | view       -- Autoview
  | deslice    -- Autodeslice (ArrayByView / ArrayByPointer)
  deriving DecidableEq, Repr

/-- member types of the structures and words of the program: (structure id, member) ↦ type -/
abbrev Members := Nat → Nat → Option Ty

/-- strip the pointers and views in front (`for _i in 0..MAX_ADDRESS_DEPTH { match current_type … }`) -/
def peel : Ty → List Step × Ty
  | .pointer t => let r := peel t; (.deref :: r.1, r.2)
  | .view t => let r := peel t; (.view :: r.1, r.2)
  | t => ([], t)

/-- `get_element_type` of what can be indexed, with the `Autodeslice` step a slice needs -/
def indexable : Ty → Option (List Step × Ty)
  | .array e _ => some ([], e)
  | .arrayNamed e _ => some ([], e)
  | .endless e => some ([], e)
  | .slice e => some ([.deslice], e)
  | .slicePtr e => some ([.deslice], e)
  | _ => none

/-- `analyze_assignment_steps`: the elaborated steps and the type the path ends in (fuel: paths are finite lists) -/
def elaborate (ms : Members) : Ty → List UStep → Option (List Step × Ty)
  | t, [] => some ([], t)
  | t, .elem :: rest =>
    let p := peel t
    match indexable p.2 with
    | some (ds, e) => (elaborate ms e rest).map (fun r => (p.1 ++ ds ++ [.elem] ++ r.1, r.2))
    | none => none
  | t, .member m :: rest =>
    let p := peel t
    match p.2 with
    | .struct i => (match ms i m with
        | some mt => (elaborate ms mt rest).map (fun r => (p.1 ++ [.member m] ++ r.1, r.2))
        | none => none)
    | .word i _ => (match ms i m with
        | some mt => (elaborate ms mt rest).map (fun r => (p.1 ++ [.member m] ++ r.1, r.2))
        | none => none)
    | _ => none

/-- `build_type_of_ref1` (no address taken): the type demanded of the base, from the type `leaf` of the value -/
def demanded (leaf : Ty) : List Step → Ty
  | [] => leaf
  | .elem :: rest => .arraylike (demanded leaf rest)
  | .member _ :: _ => .unresolved none
  | .deref :: rest => .pointer (demanded leaf rest)
  | .view :: rest => .view (demanded leaf rest)
  | .deslice :: rest => demanded leaf rest

/-- types that may stand inside other types (`is_wellformed_inner`, with this file's richer `Ty`): no void, no slice, no
    slice pointer, no view, elements that can be elements -/
def Inner : Ty → Bool
  | .void => false
  | .slice _ | .slicePtr _ | .view _ => false
  | .array t _ | .arrayNamed t _ | .endless t | .arraylike t => Inner t
  | .pointer t => Inner t
  | _ => true

/-- the type of a variable or parameter (`is_wellformed`): an inner type, or a slice / slice pointer / view of one -/
def Outer : Ty → Bool
  | .slice t | .slicePtr t => Inner t
  | .view t => Inner t
  | t => Inner t

theorem demanded_append (leaf : Ty) : ∀ (a b : List Step), (∀ s ∈ a, ∀ m, s ≠ .member m) →
    demanded leaf (a ++ b) = demanded (demanded leaf b) a
  | [], _, _ => rfl
  | s :: a, b, h => by
    have ih := demanded_append leaf a b (fun s' hs' => h s' (List.mem_cons_of_mem _ hs'))
    cases s with
    | member m => exact absurd rfl (h (.member m) (List.mem_cons_self) m)
    | elem => simp only [List.cons_append, demanded, ih]
    | deref => simp only [List.cons_append, demanded, ih]
    | view => simp only [List.cons_append, demanded, ih]
    | deslice => simp only [List.cons_append, demanded, ih]

theorem peel_no_member : ∀ (t : Ty), ∀ s ∈ (peel t).1, ∀ m, s ≠ .member m
  | .pointer t, s, hs, m => by
    simp only [peel, List.mem_cons] at hs
    rcases hs with rfl | hs
    · simp
    · exact peel_no_member t s hs m
  | .view t, s, hs, m => by
    simp only [peel, List.mem_cons] at hs
    rcases hs with rfl | hs
    · simp
    · exact peel_no_member t s hs m
  | .void, _, hs, _ => by simp [peel] at hs
  | .prim _, _, hs, _ => by simp [peel] at hs
  | .array _ _, _, hs, _ => by simp [peel] at hs
  | .arrayNamed _ _, _, hs, _ => by simp [peel] at hs
  | .slice _, _, hs, _ => by simp [peel] at hs
  | .slicePtr _, _, hs, _ => by simp [peel] at hs
  | .endless _, _, hs, _ => by simp [peel] at hs
  | .arraylike _, _, hs, _ => by simp [peel] at hs
  | .struct _, _, hs, _ => by simp [peel] at hs
  | .word _ _, _, hs, _ => by simp [peel] at hs
  | .unresolved _, _, hs, _ => by simp [peel] at hs

/-- unifying through the peeled pointers and views: it is enough that the peeled type is like what the rest demands -/
theorem isLike_peel : ∀ (t X : Ty), isLike (peel t).2 X = true → isLike t (demanded X (peel t).1) = true
  | .pointer t, X, h => by
    simp only [peel, demanded, isLike]
    exact isLike_peel t X h
  | .view t, X, h => by
    simp only [peel, demanded, isLike]
    exact isLike_peel t X h
  | .void, _, h => by simpa [peel, demanded] using h
  | .prim _, _, h => by simpa [peel, demanded] using h
  | .array _ _, _, h => by simpa [peel, demanded] using h
  | .arrayNamed _ _, _, h => by simpa [peel, demanded] using h
  | .slice _, _, h => by simpa [peel, demanded] using h
  | .slicePtr _, _, h => by simpa [peel, demanded] using h
  | .endless _, _, h => by simpa [peel, demanded] using h
  | .arraylike _, _, h => by simpa [peel, demanded] using h
  | .struct _, _, h => by simpa [peel, demanded] using h
  | .word _ _, _, h => by simpa [peel, demanded] using h
  | .unresolved _, _, h => by simpa [peel, demanded] using h

theorem inner_peel : ∀ (t : Ty), Inner t = true → Inner (peel t).2 = true
  | .pointer t, h => by simp only [peel]; exact inner_peel t (by simpa [Inner] using h)
  | .view t, h => by simp [Inner] at h
  | .void, h => by simpa [peel] using h
  | .prim _, h => by simpa [peel] using h
  | .array _ _, h => by simpa [peel] using h
  | .arrayNamed _ _, h => by simpa [peel] using h
  | .slice _, h => by simpa [peel] using h
  | .slicePtr _, h => by simpa [peel] using h
  | .endless _, h => by simpa [peel] using h
  | .arraylike _, h => by simpa [peel] using h
  | .struct _, h => by simpa [peel] using h
  | .word _ _, h => by simpa [peel] using h
  | .unresolved _, h => by simpa [peel] using h

/-- **inside a type**: a path that is valid on an inner type `t` elaborates to steps whose demanded type `t` is like -/
theorem inner_path_isLike (ms : Members) (hms : ∀ i m mt, ms i m = some mt → Inner mt = true) :
    ∀ (p : List UStep) (t : Ty) (steps : List Step) (leaf : Ty), Inner t = true → elaborate ms t p = some (steps, leaf) →
      isLike t (demanded leaf steps) = true
  | [], t, steps, leaf, _, h => by
    simp only [elaborate, Option.some.injEq, Prod.mk.injEq] at h
    obtain ⟨rfl, rfl⟩ := h
    simp only [demanded]
    exact isLike_refl t
  | .elem :: rest, t, steps, leaf, ht, h => by
    simp only [elaborate] at h
    have hp := inner_peel t ht
    cases hi : indexable (peel t).2 with
    | none => simp [hi] at h
    | some de =>
      obtain ⟨ds, e⟩ := de
      simp only [hi, Option.map_eq_some_iff] at h
      obtain ⟨⟨s', l'⟩, hr, heq⟩ := h
      simp only [Prod.mk.injEq] at heq
      obtain ⟨rfl, rfl⟩ := heq
      -- the peeled type is an array / endless array (a slice cannot stand inside a type)
      have key : isLike (peel t).2 (demanded l' (ds ++ [.elem] ++ s')) = true := by
        cases hpt : (peel t).2 with
        | array e' n =>
          rw [hpt] at hi hp
          simp only [indexable, Option.some.injEq, Prod.mk.injEq] at hi
          obtain ⟨rfl, rfl⟩ := hi
          simp only [List.nil_append, List.singleton_append, demanded, isLike]
          exact inner_path_isLike ms hms rest e' s' l' (by simpa [Inner] using hp) hr
        | arrayNamed e' n =>
          rw [hpt] at hi hp
          simp only [indexable, Option.some.injEq, Prod.mk.injEq] at hi
          obtain ⟨rfl, rfl⟩ := hi
          simp only [List.nil_append, List.singleton_append, demanded, isLike]
          exact inner_path_isLike ms hms rest e' s' l' (by simpa [Inner] using hp) hr
        | endless e' =>
          rw [hpt] at hi hp
          simp only [indexable, Option.some.injEq, Prod.mk.injEq] at hi
          obtain ⟨rfl, rfl⟩ := hi
          simp only [List.nil_append, List.singleton_append, demanded, isLike]
          exact inner_path_isLike ms hms rest e' s' l' (by simpa [Inner] using hp) hr
        | slice _ => rw [hpt] at hp; simp [Inner] at hp
        | slicePtr _ => rw [hpt] at hp; simp [Inner] at hp
        | void => rw [hpt] at hi; simp [indexable] at hi
        | prim _ => rw [hpt] at hi; simp [indexable] at hi
        | arraylike _ => rw [hpt] at hi; simp [indexable] at hi
        | struct _ => rw [hpt] at hi; simp [indexable] at hi
        | word _ _ => rw [hpt] at hi; simp [indexable] at hi
        | unresolved _ => rw [hpt] at hi; simp [indexable] at hi
        | pointer _ => rw [hpt] at hi; simp [indexable] at hi
        | view _ => rw [hpt] at hi; simp [indexable] at hi
      have := isLike_peel t _ key
      rw [← demanded_append l' (peel t).1 _ (peel_no_member t)] at this
      simpa [List.append_assoc] using this
  | .member m :: rest, t, steps, leaf, ht, h => by
    simp only [elaborate] at h
    have key : ∀ s', isLike (peel t).2 (demanded leaf ([Step.member m] ++ s')) = true →
        isLike t (demanded leaf ((peel t).1 ++ [Step.member m] ++ s')) = true := by
      intro s' hk
      have := isLike_peel t _ hk
      rw [← demanded_append leaf (peel t).1 _ (peel_no_member t)] at this
      simpa [List.append_assoc] using this
    cases hpt : (peel t).2 with
    | struct i =>
      rw [hpt] at h
      cases hm : ms i m with
      | none => simp [hm] at h
      | some mt =>
        simp only [hm, Option.map_eq_some_iff] at h
        obtain ⟨⟨s', l'⟩, _, heq⟩ := h
        simp only [Prod.mk.injEq] at heq
        obtain ⟨rfl, rfl⟩ := heq
        apply key
        rw [hpt]
        simp [demanded, isLike]
    | word i sz =>
      rw [hpt] at h
      cases hm : ms i m with
      | none => simp [hm] at h
      | some mt =>
        simp only [hm, Option.map_eq_some_iff] at h
        obtain ⟨⟨s', l'⟩, _, heq⟩ := h
        simp only [Prod.mk.injEq] at heq
        obtain ⟨rfl, rfl⟩ := heq
        apply key
        rw [hpt]
        simp [demanded, isLike]
    | void => rw [hpt] at h; simp at h
    | prim _ => rw [hpt] at h; simp at h
    | array _ _ => rw [hpt] at h; simp at h
    | arrayNamed _ _ => rw [hpt] at h; simp at h
    | slice _ => rw [hpt] at h; simp at h
    | slicePtr _ => rw [hpt] at h; simp at h
    | endless _ => rw [hpt] at h; simp at h
    | arraylike _ => rw [hpt] at h; simp at h
    | unresolved _ => rw [hpt] at h; simp at h
    | pointer _ => rw [hpt] at h; simp at h
    | view _ => rw [hpt] at h; simp at h


/-- being like a demanded type is enough to be a concretization of it -/
theorem isLike_conc : ∀ (a b : Ty), isLike a b = true → conc a b = true
  | .pointer a, b, h => by
    cases b with
    | pointer b' => simp only [isLike] at h; simp only [conc]; exact isLike_conc a b' h
    | _ => simp_all [isLike, conc]
  | .view a, b, h => by
    cases b with
    | view b' => simp only [isLike] at h; simp only [conc]; exact isLike_conc a b' h
    | _ => simp_all [isLike, conc]
  | .array a n, b, h => by
    cases b with
    | array b' m =>
      simp only [isLike, beq_iff_eq, Ty.array.injEq] at h
      obtain ⟨rfl, rfl⟩ := h
      simp [conc, conc_refl]
    | _ => simp_all [isLike, conc]
  | .arrayNamed a n, b, h => by
    cases b with
    | arrayNamed b' m =>
      simp only [isLike, beq_iff_eq, Ty.arrayNamed.injEq] at h
      obtain ⟨rfl, rfl⟩ := h
      simp [conc, conc_refl]
    | _ => simp_all [isLike, conc]
  | .endless a, b, h => by
    cases b with
    | endless b' =>
      simp only [isLike, beq_iff_eq, Ty.endless.injEq] at h
      subst h
      simp [conc, conc_refl]
    | _ => simp_all [isLike, conc]
  | .slice a, b, h => by
    simp only [isLike, beq_iff_eq] at h; subst h; exact conc_refl _
  | .slicePtr a, b, h => by
    simp only [isLike, beq_iff_eq] at h; subst h; exact conc_refl _
  | .arraylike a, b, h => by
    simp only [isLike, beq_iff_eq] at h; subst h; exact conc_refl _
  | .struct i, b, h => by cases b <;> simp_all [isLike, conc]
  | .word i s, b, h => by cases b <;> simp_all [isLike, conc]
  | .void, b, h => by simp only [isLike, beq_iff_eq] at h; subst h; exact conc_refl _
  | .prim _, b, h => by simp only [isLike, beq_iff_eq] at h; subst h; exact conc_refl _
  | .unresolved _, b, h => by simp only [isLike, beq_iff_eq] at h; subst h; exact conc_refl _

/-- **every access path the language allows is accepted**: for a variable (or parameter) of any well-formed type `t`, any
    path of `[index]` and `.member` steps that is valid on `t` — through arrays, named-length arrays, endless arrays, slices,
    slice pointers, structures, words, pointers and views, nested to any depth — elaborates to steps whose demanded type the
    typer's unification accepts for `t` (`do_update_symbol`: equal, or `t` is a concretization of it).  Whatever the type `leaf`
    of the accessed value is known to be. -/
theorem access_path_accepted (ms : Members) (hms : ∀ i m mt, ms i m = some mt → Inner mt = true)
    (t : Ty) (ht : Outer t = true) (p : List UStep) (steps : List Step) (leaf : Ty)
    (h : elaborate ms t p = some (steps, leaf)) :
    conc t (demanded leaf steps) = true := by
  cases p with
  | nil =>
    simp only [elaborate, Option.some.injEq, Prod.mk.injEq] at h
    obtain ⟨rfl, rfl⟩ := h
    exact conc_refl t
  | cons u rest =>
    -- the three outer forms, then the inner types
    cases t with
    | slice e =>
      cases u with
      | member m => simp [elaborate, peel] at h
      | elem =>
        simp only [elaborate, peel, indexable, Option.map_eq_some_iff] at h
        obtain ⟨⟨s', l'⟩, hr, heq⟩ := h
        simp only [Prod.mk.injEq] at heq
        obtain ⟨rfl, rfl⟩ := heq
        simp only [List.nil_append, List.singleton_append, List.cons_append, demanded, conc]
        exact inner_path_isLike ms hms rest e s' l' (by simpa [Outer] using ht) hr
    | slicePtr e =>
      cases u with
      | member m => simp [elaborate, peel] at h
      | elem =>
        simp only [elaborate, peel, indexable, Option.map_eq_some_iff] at h
        obtain ⟨⟨s', l'⟩, hr, heq⟩ := h
        simp only [Prod.mk.injEq] at heq
        obtain ⟨rfl, rfl⟩ := heq
        simp only [List.nil_append, List.singleton_append, List.cons_append, demanded, conc]
        exact inner_path_isLike ms hms rest e s' l' (by simpa [Outer] using ht) hr
    | view t' =>
      have hin : Inner t' = true := by simpa [Outer] using ht
      -- the view is opened first; what follows is the same path on the viewed type
      have hv : ∃ s', steps = .view :: s' ∧ elaborate ms t' (u :: rest) = some (s', leaf) := by
        cases u with
        | elem =>
          simp only [elaborate, peel] at h ⊢
          cases hi : indexable (peel t').2 with
          | none => simp [hi] at h
          | some de =>
            simp only [hi, Option.map_eq_some_iff] at h ⊢
            obtain ⟨⟨s', l'⟩, hr, heq⟩ := h
            simp only [Prod.mk.injEq] at heq
            obtain ⟨rfl, rfl⟩ := heq
            exact ⟨_, by simp, ⟨(s', l'), hr, rfl⟩⟩
        | member m =>
          simp only [elaborate, peel] at h ⊢
          have viaMember : ∀ i, (match ms i m with
                | some mt => (elaborate ms mt rest).map (fun r => (Step.view :: (peel t').1 ++ [Step.member m] ++ r.1, r.2))
                | none => none) = some (steps, leaf) →
              ∃ s', steps = .view :: s' ∧ (match ms i m with
                | some mt => (elaborate ms mt rest).map (fun r => ((peel t').1 ++ [Step.member m] ++ r.1, r.2))
                | none => none) = some (s', leaf) := by
            intro i hh
            cases hm : ms i m with
            | none => simp [hm] at hh
            | some mt =>
              simp only [hm, Option.map_eq_some_iff] at hh ⊢
              obtain ⟨⟨s', l'⟩, hr, heq⟩ := hh
              simp only [Prod.mk.injEq] at heq
              obtain ⟨rfl, rfl⟩ := heq
              exact ⟨_, by simp, ⟨(s', l'), hr, rfl⟩⟩
          cases hpt : (peel t').2 with
          | struct i => rw [hpt] at h; exact viaMember i h
          | word i sz => rw [hpt] at h; exact viaMember i h
          | void => rw [hpt] at h; simp at h
          | prim _ => rw [hpt] at h; simp at h
          | array _ _ => rw [hpt] at h; simp at h
          | arrayNamed _ _ => rw [hpt] at h; simp at h
          | slice _ => rw [hpt] at h; simp at h
          | slicePtr _ => rw [hpt] at h; simp at h
          | endless _ => rw [hpt] at h; simp at h
          | arraylike _ => rw [hpt] at h; simp at h
          | unresolved _ => rw [hpt] at h; simp at h
          | pointer _ => rw [hpt] at h; simp at h
          | view _ => rw [hpt] at h; simp at h
      obtain ⟨s', rfl, hr⟩ := hv
      simp only [demanded, conc]
      exact isLike_conc _ _ (inner_path_isLike ms hms (u :: rest) t' s' leaf hin hr)
    | void => simp [Outer, Inner] at ht
    | prim q => exact isLike_conc _ _ (inner_path_isLike ms hms (u :: rest) _ steps leaf (by simpa [Outer] using ht) h)
    | array e n => exact isLike_conc _ _ (inner_path_isLike ms hms (u :: rest) _ steps leaf (by simpa [Outer] using ht) h)
    | arrayNamed e n => exact isLike_conc _ _ (inner_path_isLike ms hms (u :: rest) _ steps leaf (by simpa [Outer] using ht) h)
    | endless e => exact isLike_conc _ _ (inner_path_isLike ms hms (u :: rest) _ steps leaf (by simpa [Outer] using ht) h)
    | arraylike e => exact isLike_conc _ _ (inner_path_isLike ms hms (u :: rest) _ steps leaf (by simpa [Outer] using ht) h)
    | struct i => exact isLike_conc _ _ (inner_path_isLike ms hms (u :: rest) _ steps leaf (by simpa [Outer] using ht) h)
    | word i sz => exact isLike_conc _ _ (inner_path_isLike ms hms (u :: rest) _ steps leaf (by simpa [Outer] using ht) h)
    | unresolved i => exact isLike_conc _ _ (inner_path_isLike ms hms (u :: rest) _ steps leaf (by simpa [Outer] using ht) h)
    | pointer t' => exact isLike_conc _ _ (inner_path_isLike ms hms (u :: rest) _ steps leaf (by simpa [Outer] using ht) h)

/-! the theorem is about real paths: an array of pointers to structures holding arrays, reached through a view -/
def exMembers : Members := fun i m => if i = 1 ∧ m = 0 then some (.array (.prim .i32) 4) else if i = 1 ∧ m = 1 then some (.prim .u8) else none

example : elaborate exMembers (.view (.array (.pointer (.struct 1)) 2)) [.elem, .member 0, .elem]
    = some ([.view, .elem, .deref, .member 0, .elem], .prim .i32) := by decide
example : conc (.view (.array (.pointer (.struct 1)) 2)) (demanded (.prim .i32) [.view, .elem, .deref, .member 0, .elem]) = true := by decide
-- and it is not a theorem about everything: a path that the type does not have has no elaboration
example : elaborate exMembers (.array (.prim .i32) 3) [.member 0] = none := by decide


/-! ### `&path`: the address of what a path denotes -/

def unpointer : Ty → Ty
  | .pointer t => t
  | t => t

def isIndirect : List Step → Bool
  | [] => false
  | .elem :: _ => true
  | .member _ :: _ => true
  | _ :: rest => isIndirect rest

/-- `build_type_of_ref1` with `took_address = true`: `valueType` is the (pointer) type of the whole expression `&path` -/
def demandedAddr (valueType : Ty) (steps : List Step) : Ty :=
  let base := if steps.getLast? = some .elem then unpointer valueType else valueType
  let full := demanded base steps
  if isIndirect steps then full else unpointer full

theorem demanded_member_last (l l' : Ty) (m : Nat) : ∀ (pre : List Step),
    demanded l (pre ++ [.member m]) = demanded l' (pre ++ [.member m])
  | [] => rfl
  | s :: pre => by
    have ih := demanded_member_last l l' m pre
    cases s <;> simp only [List.cons_append, demanded, ih]

theorem isIndirect_append_elem : ∀ (pre : List Step), isIndirect (pre ++ [.elem]) = true
  | [] => rfl
  | s :: pre => by cases s <;> simp [isIndirect, isIndirect_append_elem pre]

theorem isIndirect_append_member (m : Nat) : ∀ (pre : List Step), isIndirect (pre ++ [.member m]) = true
  | [] => rfl
  | s :: pre => by cases s <;> simp [isIndirect, isIndirect_append_member m pre]

/-- the elaborated steps of a non-empty path end in the element or member step the programmer wrote -/
theorem elaborate_last (ms : Members) : ∀ (p : List UStep) (t : Ty) (steps : List Step) (leaf : Ty), p ≠ [] →
    elaborate ms t p = some (steps, leaf) → ∃ pre, steps = pre ++ [.elem] ∨ ∃ m, steps = pre ++ [.member m]
  | [], _, _, _, hne, _ => absurd rfl hne
  | u :: rest, t, steps, leaf, _, h => by
    -- the first written step contributes `front ++ [step]`; the rest either is empty or ends properly by induction
    have tail : ∀ (front : List Step) (st : Step) (e : Ty) (s' : List Step),
        (st = .elem ∨ ∃ m, st = .member m) → elaborate ms e rest = some (s', leaf) →
        ∃ pre, front ++ [st] ++ s' = pre ++ [.elem] ∨ ∃ m, front ++ [st] ++ s' = pre ++ [.member m] := by
      intro front st e s' hst hr
      cases hrest : rest with
      | nil =>
        rw [hrest] at hr
        simp only [elaborate, Option.some.injEq, Prod.mk.injEq] at hr
        obtain ⟨rfl, _⟩ := hr
        rcases hst with rfl | ⟨m, rfl⟩
        · exact ⟨front, Or.inl (by simp)⟩
        · exact ⟨front, Or.inr ⟨m, by simp⟩⟩
      | cons u' rest' =>
        obtain ⟨pre, hp⟩ := elaborate_last ms rest e s' leaf (by rw [hrest]; simp) hr
        rcases hp with hp | ⟨m, hp⟩
        · exact ⟨front ++ [st] ++ pre, Or.inl (by rw [hp]; simp [List.append_assoc])⟩
        · exact ⟨front ++ [st] ++ pre, Or.inr ⟨m, by rw [hp]; simp [List.append_assoc]⟩⟩
    cases u with
    | elem =>
      simp only [elaborate] at h
      cases hi : indexable (peel t).2 with
      | none => simp [hi] at h
      | some de =>
        obtain ⟨ds, e⟩ := de
        simp only [hi, Option.map_eq_some_iff] at h
        obtain ⟨⟨s', l'⟩, hr, heq⟩ := h
        simp only [Prod.mk.injEq] at heq
        obtain ⟨rfl, rfl⟩ := heq
        obtain ⟨pre, hp⟩ := tail ((peel t).1 ++ ds) .elem e s' (Or.inl rfl) hr
        exact ⟨pre, by simpa [List.append_assoc] using hp⟩
    | member m =>
      simp only [elaborate] at h
      have viaMember : ∀ i, (match ms i m with
            | some mt => (elaborate ms mt rest).map (fun r => ((peel t).1 ++ [Step.member m] ++ r.1, r.2))
            | none => none) = some (steps, leaf) →
          ∃ pre, steps = pre ++ [.elem] ∨ ∃ m', steps = pre ++ [.member m'] := by
        intro i hh
        cases hm : ms i m with
        | none => simp [hm] at hh
        | some mt =>
          simp only [hm, Option.map_eq_some_iff] at hh
          obtain ⟨⟨s', l'⟩, hr, heq⟩ := hh
          simp only [Prod.mk.injEq] at heq
          obtain ⟨rfl, rfl⟩ := heq
          exact tail (peel t).1 (.member m) mt s' (Or.inr ⟨m, rfl⟩) hr
      cases hpt : (peel t).2 with
      | struct i => rw [hpt] at h; exact viaMember i h
      | word i sz => rw [hpt] at h; exact viaMember i h
      | void => rw [hpt] at h; simp at h
      | prim _ => rw [hpt] at h; simp at h
      | array _ _ => rw [hpt] at h; simp at h
      | arrayNamed _ _ => rw [hpt] at h; simp at h
      | slice _ => rw [hpt] at h; simp at h
      | slicePtr _ => rw [hpt] at h; simp at h
      | endless _ => rw [hpt] at h; simp at h
      | arraylike _ => rw [hpt] at h; simp at h
      | unresolved _ => rw [hpt] at h; simp at h
      | pointer _ => rw [hpt] at h; simp at h
      | view _ => rw [hpt] at h; simp at h

/-- **the address of whatever a path denotes is accepted too** (`&g[1]`, `&s.items[2]`, `&d[k].arr`, `&x`): with the pointer
    type `&leaf` expected for the whole expression, the type demanded of the variable is the one of the plain access.
    (This is what F51 broke for paths ending in an index: the pointer was wrapped into the demanded array type.) -/
theorem address_path_accepted (ms : Members) (hms : ∀ i m mt, ms i m = some mt → Inner mt = true)
    (t : Ty) (ht : Outer t = true) (p : List UStep) (steps : List Step) (leaf : Ty)
    (h : elaborate ms t p = some (steps, leaf)) :
    conc t (demandedAddr (.pointer leaf) steps) = true := by
  cases p with
  | nil =>
    simp only [elaborate, Option.some.injEq, Prod.mk.injEq] at h
    obtain ⟨rfl, rfl⟩ := h
    simp [demandedAddr, demanded, isIndirect, unpointer, conc_refl]
  | cons u rest =>
    obtain ⟨pre, hp⟩ := elaborate_last ms (u :: rest) t steps leaf (by simp) h
    have hplain := access_path_accepted ms hms t ht (u :: rest) steps leaf h
    rcases hp with hp | ⟨m, hp⟩
    · subst hp
      simpa [demandedAddr, isIndirect_append_elem, unpointer] using hplain
    · subst hp
      have : demanded (.pointer leaf) (pre ++ [.member m]) = demanded leaf (pre ++ [.member m]) :=
        demanded_member_last _ _ m pre
      simpa [demandedAddr, isIndirect_append_member, this] using hplain

end Ty
end Types
