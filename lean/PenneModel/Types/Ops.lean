import PenneModel.Types.ValueType
/-
  C07 — which operand types each operator accepts (src/alpha/resolver.rs: `VALID_TYPES_FOR_*`,
  `match_type_of_operands`, `is_valid_primitive_conversion`) and the diagnostics for violations.
-/
namespace Types

/-- operand types as the resolver distinguishes them: the thirteen primitives, pointers (compared with their full
    pointee type: `&i32` and `&u32` are different types), anything else -/
inductive OT where
  | prim (p : Prim)
  | pointer (pointee : OT)
  | other            -- arrays, slices, structures, words, views
  deriving DecidableEq, Repr

def allPrims : List Prim := [.i8, .i16, .i32, .i64, .i128, .u8, .u16, .u32, .u64, .u128, .usize, .char8, .bool]

def isIntegral : Prim → Bool
  | .char8 | .bool => false
  | _ => true

def isSignedP : Prim → Bool
  | .i8 | .i16 | .i32 | .i64 | .i128 => true
  | _ => false

def isFixedUnsigned : Prim → Bool
  | .u8 | .u16 | .u32 | .u64 | .u128 => true
  | _ => false

inductive Op where
  | add | sub | mul | div | mod | band | bor | bxor | shl | shr      -- binary
  | eq | ne | lt | le | gt | ge                                       -- comparison
  | neg | compl                                                       -- unary
  deriving DecidableEq, Repr

def allOps : List Op := [.add, .sub, .mul, .div, .mod, .band, .bor, .bxor, .shl, .shr, .eq, .ne, .lt, .le, .gt, .ge, .neg, .compl]

/-- `valid_types()` -/
def validFor (op : Op) (t : OT) : Bool :=
  match op, t with
  | .add, .prim p | .sub, .prim p | .mul, .prim p | .div, .prim p | .mod, .prim p => isIntegral p || p == .char8
  | .band, .prim p | .bor, .prim p | .bxor, .prim p | .shl, .prim p | .shr, .prim p => isFixedUnsigned p
  | .eq, .prim _ | .ne, .prim _ => true
  | .eq, .pointer _ | .ne, .pointer _ => true
  | .lt, .prim _ | .le, .prim _ | .gt, .prim _ | .ge, .prim _ => true
  | .neg, .prim p => isSignedP p
  | .compl, .prim p => isFixedUnsigned p || p == .bool
  | _, _ => false

/-- diagnostic for `l op r` (0 = accepted): operands must have the identical type, and that type must be valid -/
def binaryVerdict (op : Op) (l r : OT) : Nat :=
  if l ≠ r then 551 else if validFor op l then 0 else 550

def unaryVerdict (op : Op) (t : OT) : Nat := if validFor op t then 0 else 550

/-- `is_valid_primitive_conversion` -/
def validCast (s d : Prim) : Bool :=
  s != d && ((isIntegral s && isIntegral d) || (s == .u8 && d == .char8) || (s == .char8 && d == .u8)
             || (s == .bool && isIntegral d))

/-- an identity cast is dropped by the typer before the conversion table is consulted (tests/samples/valid/identity_casting.pn) -/
def castVerdict (s d : Prim) : Nat := if s == d || validCast s d then 0 else 552

def primOf (s : String) : Option Prim :=
  match s with
  | "i8" => some .i8 | "i16" => some .i16 | "i32" => some .i32 | "i64" => some .i64 | "i128" => some .i128
  | "u8" => some .u8 | "u16" => some .u16 | "u32" => some .u32 | "u64" => some .u64 | "u128" => some .u128
  | "usize" => some .usize | "char8" => some .char8 | "bool" => some .bool | _ => none

def opOf (s : String) : Option Op :=
  match s with
  | "add" => some .add | "sub" => some .sub | "mul" => some .mul | "div" => some .div | "mod" => some .mod
  | "and" => some .band | "or" => some .bor | "xor" => some .bxor | "shl" => some .shl | "shr" => some .shr
  | "eq" => some .eq | "ne" => some .ne | "lt" => some .lt | "le" => some .le | "gt" => some .gt | "ge" => some .ge
  | "neg" => some .neg | "compl" => some .compl | _ => none

end Types
