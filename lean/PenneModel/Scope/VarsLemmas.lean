import PenneModel.Scope.Vars
/-
  C05 — no variable is used out of scope, shadowed, or with its declaration skipped.
  Property theorems (partial: see DESIGN.md §4 C05 for what is proved and what is only
  checked by the three-way correspondence run).
-/
namespace Vars

/-! ### Decision logic of a single use / declaration (stated outright) -/

/-- E402 is raised exactly when the name is on no layer of the stack. -/
theorem use_undefined_iff (st : St) (n : Name) :
    (useVar st n).2 = [402] ↔ lookup st.stack n = none := by
  unfold useVar
  cases h : lookup st.stack n with
  | none => simp
  | some id => by_cases hp : id ∈ st.pruned <;> simp [hp]

/-- E482 is raised exactly when the name resolves to a declaration that a jump may have skipped;
    the declaration is then poisoned, so that it is reported once per pruning. -/
theorem use_skipped_iff (st : St) (n : Name) :
    (useVar st n).2 = [482] ↔ ∃ id, lookup st.stack n = some id ∧ id ∈ st.pruned := by
  unfold useVar
  cases h : lookup st.stack n with
  | none => simp
  | some id => by_cases hp : id ∈ st.pruned <;> simp [hp]

/-- a use raises nothing exactly when it resolves to a declaration that is not pruned -/
theorem use_ok_iff (st : St) (n : Name) :
    (useVar st n).2 = [] ↔ ∃ id, lookup st.stack n = some id ∧ id ∉ st.pruned := by
  unfold useVar
  cases h : lookup st.stack n with
  | none => simp
  | some id => by_cases hp : id ∈ st.pruned <;> simp [hp]

/-- a declaration is a duplicate exactly when its name is visible on any layer (constants and
    parameters included): no shadowing -/
theorem declare_clash_iff (st : St) (n : Name) (dup : Code) :
    (declareVar st n dup).2 = [dup] ↔ (lookup st.stack n).isSome = true := by
  unfold declareVar
  cases h : (lookup st.stack n).isSome <;> simp

/-! ### Block scoping: what a statement may do to the variable stack -/

theorem useVar_stack (st : St) (n : Name) : (useVar st n).1.stack = st.stack := by
  unfold useVar
  cases h : lookup st.stack n with
  | none => rfl
  | some id => by_cases hp : id ∈ st.pruned <;> simp [hp]

theorem useVars_stack (st : St) (ns : List Name) : (useVars st ns).1.stack = st.stack := by
  induction ns generalizing st with
  | nil => rfl
  | cons n ns ih => simp [useVars, ih, useVar_stack]

theorem atGoto_stack (st : St) (l : Name) : (atGoto st l).stack = st.stack := by
  unfold atGoto; split <;> rfl

theorem atLabel_stack (st : St) (l : Name) : (atLabel st l).stack = st.stack := by
  unfold atLabel
  split
  · rfl
  · split <;> rfl

/-- extend the innermost layer -/
def addLast : List (List (Name × VarId)) → List (Name × VarId) → List (List (Name × VarId))
  | [], ps => [ps]
  | [l], ps => [l ++ ps]
  | l :: ls, ps => l :: addLast ls ps

theorem pushLayer_eq (stk : List (List (Name × VarId))) (p : Name × VarId) :
    pushLayer stk p = addLast stk [p] := by
  induction stk with
  | nil => rfl
  | cons l rest ih => cases rest with
    | nil => rfl
    | cons l' rest' => simp only [pushLayer, addLast, ih]

theorem addLast_nil (stk : List (List (Name × VarId))) (h : stk ≠ []) : addLast stk [] = stk := by
  induction stk with
  | nil => exact absurd rfl h
  | cons l rest ih => cases rest with
    | nil => simp [addLast]
    | cons l' rest' => simp only [addLast]; rw [ih (by simp)]

theorem addLast_ne_nil (stk : List (List (Name × VarId))) (a) : addLast stk a ≠ [] := by
  cases stk with
  | nil => simp [addLast]
  | cons l rest => cases rest <;> simp [addLast]

theorem addLast_addLast (stk : List (List (Name × VarId))) (h : stk ≠ []) (a b) :
    addLast (addLast stk a) b = addLast stk (a ++ b) := by
  induction stk with
  | nil => exact absurd rfl h
  | cons l rest ih => cases rest with
    | nil => simp [addLast]
    | cons l' rest' =>
      simp only [addLast]
      have := ih (by simp)
      cases h' : addLast (l' :: rest') a with
      | nil => exact absurd h' (addLast_ne_nil _ _)
      | cons x xs => rw [h'] at this; simp only [addLast]; rw [this]

theorem dropLast_addLast_snoc (stk : List (List (Name × VarId))) (a) :
    (addLast (stk ++ [[]]) a).dropLast = stk := by
  induction stk with
  | nil => simp [addLast]
  | cons l rest ih => cases rest with
    | nil => simp [addLast]
    | cons l' rest' =>
      simp only [List.cons_append, addLast] at ih ⊢
      cases h' : addLast (l' :: (rest' ++ [[]])) a with
      | nil => exact absurd h' (addLast_ne_nil _ _)
      | cons x xs => rw [h'] at ih; simp [List.dropLast, ih]

mutual
/-- every statement only ever *appends to the innermost layer*: enclosing layers are untouched and the
    stack depth is restored -/
theorem goStmt_stack (s : Stmt) (st : St) (h : st.stack ≠ []) :
    ∃ added, (goStmt st s).1.stack = addLast st.stack added ∧ (∀ ss, s = .block ss → added = []) := by
  cases s with
  | decl v us =>
    refine ⟨[(v, (useVars st us).1.nextId)], ?_, by simp⟩
    simp [goStmt, declareVar, useVars_stack, pushLayer_eq]
  | use vs => exact ⟨[], by simp [goStmt, useVars_stack, addLast_nil _ h], by simp⟩
  | loop => exact ⟨[], by simp [goStmt, addLast_nil _ h], by simp⟩
  | goto l => exact ⟨[], by simp [goStmt, atGoto_stack, addLast_nil _ h], by simp⟩
  | label l => exact ⟨[], by simp [goStmt, atLabel_stack, addLast_nil _ h], by simp⟩
  | ifThen c t =>
    obtain ⟨a, ha, _⟩ := goStmt_stack t (useVars st c).1 (by rw [useVars_stack]; exact h)
    exact ⟨a, by simp [goStmt, ha, useVars_stack], by simp⟩
  | ifElse c t e =>
    obtain ⟨a, ha, _⟩ := goStmt_stack t (useVars st c).1 (by rw [useVars_stack]; exact h)
    obtain ⟨b, hb, _⟩ := goStmt_stack e (goStmt (useVars st c).1 t).1 (by rw [ha]; exact addLast_ne_nil _ _)
    refine ⟨a ++ b, ?_, by simp⟩
    simp only [goStmt]
    rw [hb, ha, useVars_stack, addLast_addLast _ h]
  | block ss =>
    obtain ⟨a, ha⟩ := goList_stack ss { st with stack := st.stack ++ [[]] } (by simp)
    refine ⟨[], ?_, by simp⟩
    simp only [goStmt]
    rw [ha]
    simp [dropLast_addLast_snoc, addLast_nil _ h]
theorem goList_stack (ss : Stmts) (st : St) (h : st.stack ≠ []) :
    ∃ added, (goList st ss).1.stack = addLast st.stack added := by
  cases ss with
  | nil => exact ⟨[], by simp [goList, addLast_nil _ h]⟩
  | cons s ss =>
    obtain ⟨a, ha, _⟩ := goStmt_stack s st h
    obtain ⟨b, hb⟩ := goList_stack ss (goStmt st s).1 (by rw [ha]; exact addLast_ne_nil _ _)
    exact ⟨a ++ b, by simp only [goList]; rw [hb, ha, addLast_addLast _ h]⟩
end

/-- **C05, block scoping.**  Whatever a braced block declares is gone after the block: the variable
    stack after the block statement is the stack before it, for every block and every state. -/
theorem block_scoped (ss : Stmts) (st : St) (h : st.stack ≠ []) :
    (goStmt st (.block ss)).1.stack = st.stack := by
  obtain ⟨a, ha, hb⟩ := goStmt_stack (.block ss) st h
  rw [ha, hb ss rfl, addLast_nil _ h]

/-- non-vacuity / regression example: the documented E482 shape and its harmless variant -/
example : goFunction [] [] (.cons (.goto 0) (.cons (.decl 1 []) (.cons (.label 0) (.cons (.use [1]) .nil)))) = [482] := by decide
example : goFunction [] [] (.cons (.decl 1 []) (.cons (.goto 0) (.cons (.label 0) (.cons (.use [1]) .nil)))) = [] := by decide
example : goFunction [] [] (.cons (.block (.cons (.decl 1 []) .nil)) (.cons (.use [1]) .nil)) = [402] := by decide
example : goFunction [5] [3] (.cons (.decl 5 []) (.cons (.decl 3 []) .nil)) = [422, 422] := by decide

end Vars
