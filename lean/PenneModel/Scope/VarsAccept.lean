/-
  C05 meets C04 and C06: the side conditions of `Vars.sound` follow from acceptance by the other two analyzers, and the
  theorem for whole functions.

  * `place_brOKL`: a body the placement model accepts (no E840) has well-placed branches;
  * `lwf_of_labels`: in a body the label scoper model accepts (no E400, no E420), a label that is pending in the
    variable scoper is located later in the current or an enclosing block (`PV`), hence cannot occur inside a block that
    starts while it is pending (it would clash: E420);
  * `accepted_runs_initialised`: a function all three models accept never reaches a use of an uninitialised variable.
-/
import PenneModel.Scope.VarsSound
import PenneModel.CF.Scoped
import PenneModel.Props.C06

namespace Vars
open Dyn
open Labels (visible declared declaredS)

/-! ### placement -/

mutual
theorem place_brOK : ∀ (s : Stmt) (c : Place.Ctx), Place.specStmt c s = [] →
    brOK s = true ∧ (c = .thenBr → isBranch s = true) ∧ (c = .elseBr → (isBranch s || isIf s) = true)
  | .label _, c, h => by cases c <;> simp_all [Place.specStmt, brOK, isBranch, isIf]
  | .goto _, c, h => by cases c <;> simp_all [Place.specStmt, brOK, isBranch, isIf]
  | .loop, c, h => by cases c <;> simp_all [Place.specStmt, brOK, isBranch, isIf]
  | .decl _ _, c, h => by cases c <;> simp_all [Place.specStmt, brOK, isBranch, isIf]
  | .use _, c, h => by cases c <;> simp_all [Place.specStmt, brOK, isBranch, isIf]
  | .ifThen cc t, c, h => by
    have key : Place.specStmt .thenBr t = [] → brOK (.ifThen cc t) = true := by
      intro h'
      obtain ⟨a, b, _⟩ := place_brOK t .thenBr h'
      simp [brOK, a, b rfl]
    cases c <;> simp_all [Place.specStmt, isBranch, isIf]
  | .ifElse cc t e, c, h => by
    have key : Place.specStmt .thenBr t ++ Place.specStmt .elseBr e = [] → brOK (.ifElse cc t e) = true := by
      intro h'
      rw [List.append_eq_nil_iff] at h'
      obtain ⟨a, b, _⟩ := place_brOK t .thenBr h'.1
      obtain ⟨a', _, c'⟩ := place_brOK e .elseBr h'.2
      have := c' rfl
      simp only [Bool.or_eq_true] at this
      simp [brOK, a, b rfl, a', this]
    cases c <;> simp_all [Place.specStmt, isBranch, isIf]
  | .block ss, c, h => by
    have key : Place.specBlock ss = [] → brOK (.block ss) = true := by
      intro h'
      simp [brOK, place_brOKB ss h']
    cases c <;> simp_all [Place.specStmt, isBranch, isIf]
theorem place_brOKB : ∀ (ss : Stmts), Place.specBlock ss = [] → brOKL ss = true
  | .nil, _ => rfl
  | .cons s .nil, h => by
    simp only [Place.specBlock] at h
    simp [brOKL, (place_brOK s .blockLast h).1]
  | .cons s (.cons s' ss), h => by
    simp only [Place.specBlock, List.append_eq_nil_iff] at h
    simp only [brOKL, Bool.and_eq_true]
    have := place_brOKB (.cons s' ss) h.2
    simp only [brOKL, Bool.and_eq_true] at this
    exact ⟨(place_brOK s .blockInner h.1).1, this⟩
end

theorem place_brOKL : ∀ (ss : Stmts), Place.specList ss = [] → brOKL ss = true
  | .nil, _ => rfl
  | .cons s ss, h => by
    simp only [Place.specList, List.append_eq_nil_iff] at h
    simp [brOKL, (place_brOK s .fnBody h.1).1, place_brOKL ss h.2]

/-! ### labels -/

theorem visible_addLast_mono (ctx : Labels.Stack) (hne : ctx ≠ []) (ns : List Name) (l : Name) (h : visible ctx l = true) :
    visible (Labels.addLast ctx ns) l = true := by
  rw [CF.visible_addLast ctx hne]; simp [h]

mutual
/-- a label that is visible (located later in an enclosing block) does not occur in accepted code: E420 -/
theorem spec_noLabel (l : Name) : ∀ (s : Stmt) (ctx : Labels.Stack), ctx ≠ [] → visible ctx l = true →
    Labels.specStmt ctx s = [] → noLabel l s = true
  | .label n, ctx, _, hv, h => by
    simp only [Labels.specStmt] at h
    simp only [noLabel, bne_iff_ne, ne_eq]
    intro hn; subst hn
    simp [hv] at h
  | .goto _, _, _, _, _ => rfl
  | .loop, _, _, _, _ => rfl
  | .decl _ _, _, _, _, _ => rfl
  | .use _, _, _, _, _ => rfl
  | .ifThen _ t, ctx, hne, hv, h => by
    simp only [Labels.specStmt] at h
    simp only [noLabel]
    exact spec_noLabel l t ctx hne hv h
  | .ifElse _ t e, ctx, hne, hv, h => by
    simp only [Labels.specStmt, List.append_eq_nil_iff] at h
    simp only [noLabel, Bool.and_eq_true]
    exact ⟨spec_noLabel l t ctx hne hv h.1,
      spec_noLabel l e _ (Labels.addLast_ne_nil _ _) (visible_addLast_mono ctx hne _ l hv) h.2⟩
  | .block ss, ctx, hne, hv, h => by
    simp only [Labels.specStmt] at h
    simp only [noLabel]
    exact spec_noLabelL l ss (ctx ++ [[]]) (by simp) (by rw [CF.visible_snoc_nil]; exact hv) h
theorem spec_noLabelL (l : Name) : ∀ (ss : Stmts) (ctx : Labels.Stack), ctx ≠ [] → visible ctx l = true →
    Labels.specBlock ctx ss = [] → noLabelL l ss = true
  | .nil, _, _, _, _ => rfl
  | .cons s ss, ctx, hne, hv, h => by
    simp only [Labels.specBlock, List.append_eq_nil_iff] at h
    simp only [noLabelL, Bool.and_eq_true]
    exact ⟨spec_noLabel l s _ (Labels.addLast_ne_nil _ _) (visible_addLast_mono ctx hne _ l hv) h.1,
      spec_noLabelL l ss ctx hne hv h.2⟩
end

/-- every label the variable scoper is waiting for is located later in the current or an enclosing block -/
def PV (st : St) (ctx : Labels.Stack) : Prop := ∀ l, (pending st l).isSome = true → visible ctx l = true

theorem pending_atGoto_inv (st : St) (l2 l : Name) (h : (pending (atGoto st l2) l).isSome = true) :
    l = l2 ∨ (pending st l).isSome = true := by
  by_cases hl : l = l2
  · exact Or.inl hl
  · right
    unfold atGoto at h
    cases hf : st.unresolved.find? (fun p => p.1 == l2) with
    | none =>
      simp only [hf, pending, List.find?_cons] at h
      have : (l2 == l) = false := by simp [Ne.symm hl]
      simpa [pending, this] using h
    | some q =>
      obtain ⟨k, inter⟩ := q
      simp only [hf, pending, Option.isSome_map, List.find?_isSome, List.mem_map] at h ⊢
      obtain ⟨x, ⟨y, hy, rfl⟩, hx⟩ := h
      refine ⟨y, hy, ?_⟩
      split at hx
      · simp only [beq_iff_eq] at hx; exact absurd hx.symm hl
      · exact hx

theorem pending_atLabel_inv (st : St) (l2 l : Name) (h : (pending (atLabel st l2) l).isSome = true) :
    l ≠ l2 ∧ (pending st l).isSome = true := by
  unfold atLabel at h
  cases hf : st.unresolved.find? (fun p => p.1 == l2) with
  | none =>
    simp only [hf] at h
    refine ⟨?_, h⟩
    intro he; subst he
    simp [pending, hf] at h
  | some q =>
    have hkey : ∀ st' : St, st'.unresolved = st.unresolved.filter (fun p => p.1 != l2) →
        (pending st' l).isSome = true → l ≠ l2 ∧ (pending st l).isSome = true := by
      intro st' hu hp
      simp only [pending, hu, Option.isSome_map, List.find?_isSome, List.mem_filter] at hp ⊢
      obtain ⟨x, ⟨hx1, hx2⟩, hx3⟩ := hp
      simp only [beq_iff_eq, bne_iff_ne, ne_eq] at hx2 hx3
      exact ⟨fun he => hx2 (hx3.trans he), x, hx1, by simpa using hx3⟩
    simp only [hf] at h
    split at h
    · exact hkey _ rfl h
    · exact hkey _ rfl h

theorem declared_branch : ∀ (s : Stmt), brOK s = true → (isBranch s || isIf s) = true → declared s = []
  | .goto _, _, _ => rfl
  | .block _, _, _ => rfl
  | .ifThen _ t, hb, _ => by
    simp only [brOK, Bool.and_eq_true] at hb
    simp only [declared]
    exact declared_branch t hb.2 (by simp [hb.1])
  | .ifElse _ t e, hb, _ => by
    simp only [brOK, Bool.and_eq_true] at hb
    simp only [declared]
    rw [declared_branch t hb.1.1.2 (by simp [hb.1.1.1]), declared_branch e hb.2 hb.1.2]
    rfl
  | .label _, _, hi => by simp [isBranch, isIf] at hi
  | .loop, _, hi => by simp [isBranch, isIf] at hi
  | .decl _ _, _, hi => by simp [isBranch, isIf] at hi
  | .use _, _, hi => by simp [isBranch, isIf] at hi

theorem PV_congr {st st' : St} (h : st'.unresolved = st.unresolved) (ctx : Labels.Stack) (hp : PV st ctx) : PV st' ctx := by
  intro l hl
  rw [pending_congr h] at hl
  exact hp l hl

mutual
theorem lwf_stmt : ∀ (s : Stmt) (st : St) (ctx : Labels.Stack), ctx ≠ [] → brOK s = true → Labels.specStmt ctx s = [] →
    PV st (Labels.addLast ctx (declared s)) → LWF st s ∧ PV (goStmt st s).1 ctx
  | .decl v us, st, ctx, hne, _, _, hp => by
    simp only [declared, Labels.addLast_nil ctx hne] at hp
    exact ⟨trivial, PV_congr (by simp [goStmt, declareVar_unresolved, useVars_unresolved]) ctx hp⟩
  | .use vs, st, ctx, hne, _, _, hp => by
    simp only [declared, Labels.addLast_nil ctx hne] at hp
    exact ⟨trivial, PV_congr (by simp [goStmt, useVars_unresolved]) ctx hp⟩
  | .loop, st, ctx, hne, _, _, hp => by
    simp only [declared, Labels.addLast_nil ctx hne] at hp
    exact ⟨trivial, hp⟩
  | .goto l2, st, ctx, hne, _, hs, hp => by
    simp only [declared, Labels.addLast_nil ctx hne] at hp
    refine ⟨trivial, ?_⟩
    intro l hl
    simp only [goStmt] at hl
    rcases pending_atGoto_inv st l2 l hl with rfl | h
    · simp only [Labels.specStmt] at hs
      by_cases hv : visible ctx l = true
      · exact hv
      · simp [hv] at hs
    · exact hp l h
  | .label l2, st, ctx, hne, _, _, hp => by
    refine ⟨trivial, ?_⟩
    intro l hl
    simp only [goStmt] at hl
    obtain ⟨h1, h2⟩ := pending_atLabel_inv st l2 l hl
    have := hp l h2
    rw [declared, CF.visible_addLast ctx hne] at this
    simpa [h1] using this
  | .ifThen c t, st, ctx, hne, hb, hs, hp => by
    simp only [brOK, Bool.and_eq_true] at hb
    simp only [Labels.specStmt] at hs
    simp only [declared] at hp
    obtain ⟨h1, h2⟩ := lwf_stmt t (useVars st c).1 ctx hne hb.2 hs (PV_congr (useVars_unresolved st c) _ hp)
    exact ⟨by simpa [LWF] using h1, by simpa [goStmt] using h2⟩
  | .ifElse c t e, st, ctx, hne, hb, hs, hp => by
    simp only [brOK, Bool.and_eq_true] at hb
    simp only [Labels.specStmt, List.append_eq_nil_iff] at hs
    have hdt := declared_branch t hb.1.1.2 (by simp [hb.1.1.1])
    have hde := declared_branch e hb.2 hb.1.2
    simp only [declared, hdt, hde, List.append_nil, Labels.addLast_nil ctx hne] at hp
    rw [hdt, Labels.addLast_nil ctx hne] at hs
    obtain ⟨h1, h2⟩ := lwf_stmt t (useVars st c).1 ctx hne hb.1.1.2 hs.1
      (by rw [hdt, Labels.addLast_nil ctx hne]; exact PV_congr (useVars_unresolved st c) _ hp)
    obtain ⟨h3, h4⟩ := lwf_stmt e _ ctx hne hb.2 hs.2 (by rw [hde, Labels.addLast_nil ctx hne]; exact h2)
    exact ⟨by simp only [LWF]; exact ⟨h1, h3⟩, by simpa [goStmt] using h4⟩
  | .block ss, st, ctx, hne, hb, hs, hp => by
    simp only [brOK] at hb
    simp only [Labels.specStmt] at hs
    simp only [declared, Labels.addLast_nil ctx hne] at hp
    have hpin : PV { st with stack := st.stack ++ [[]] } (Labels.addLast (ctx ++ [[]]) (declaredS ss)) := by
      intro l hl
      apply visible_addLast_mono _ (by simp)
      rw [CF.visible_snoc_nil]
      exact hp l (by simpa [pending] using hl)
    obtain ⟨h1, h2⟩ := lwf_list ss _ (ctx ++ [[]]) (by simp) hb hs hpin
    refine ⟨?_, ?_⟩
    · simp only [LWF]
      refine ⟨?_, h1⟩
      intro l hl
      exact spec_noLabelL l ss (ctx ++ [[]]) (by simp) (by rw [CF.visible_snoc_nil]; exact hp l hl) hs
    · intro l hl
      have := h2 l (by simpa [goStmt, pending] using hl)
      rw [CF.visible_snoc_nil] at this
      exact this
theorem lwf_list : ∀ (ss : Stmts) (st : St) (ctx : Labels.Stack), ctx ≠ [] → brOKL ss = true → Labels.specBlock ctx ss = [] →
    PV st (Labels.addLast ctx (declaredS ss)) → LWFL st ss ∧ PV (goList st ss).1 ctx
  | .nil, st, ctx, hne, _, _, hp => by
    simp only [declaredS, Labels.addLast_nil ctx hne] at hp
    exact ⟨trivial, hp⟩
  | .cons s ss, st, ctx, hne, hb, hs, hp => by
    simp only [brOKL, Bool.and_eq_true] at hb
    simp only [Labels.specBlock, List.append_eq_nil_iff] at hs
    simp only [declaredS] at hp
    rw [← Labels.addLast_addLast ctx hne] at hp
    obtain ⟨h1, h2⟩ := lwf_stmt s st _ (Labels.addLast_ne_nil _ _) hb.1 hs.1 hp
    obtain ⟨h3, h4⟩ := lwf_list ss _ ctx hne hb.2 hs.2 h2
    exact ⟨by simp only [LWFL]; exact ⟨h1, h3⟩, by simpa [goList] using h4⟩
end

/-! ### whole functions -/

theorem declareAll_names (dup : Code) : ∀ (ns : List Name) (st : St), st.stack ≠ [] →
    (declareAll st dup ns).1.stack ≠ [] ∧
    ∀ q ∈ (declareAll st dup ns).1.stack.flatten, q ∈ st.stack.flatten ∨ q.1 ∈ ns
  | [], st, h => ⟨h, fun q hq => Or.inl hq⟩
  | n :: ns, st, h => by
    have hne : (declareVar st n dup).1.stack ≠ [] := by
      simp only [declareVar, pushLayer_eq]; exact addLast_ne_nil _ _
    obtain ⟨h1, h2⟩ := declareAll_names dup ns (declareVar st n dup).1 hne
    refine ⟨by simpa [declareAll] using h1, ?_⟩
    intro q hq
    simp only [declareAll] at hq
    rcases h2 q hq with h3 | h3
    · simp only [declareVar, pushLayer_eq, flatten_addLast, List.mem_append, List.mem_singleton] at h3
      rcases h3 with h3 | h3
      · exact Or.inl h3
      · right; subst h3; simp
    · right; exact List.mem_cons_of_mem _ h3

/-- **C05, soundness for every run.**  If the variable scoper raises nothing on a function (`goFunction … = []`: no
    E402, E482, E422, E424), and the label scoper and the placement analyzer raise nothing on its body, then no run of the
    body — whatever the conditions evaluate to (`o`), however long it runs (`fuel`), however many rounds its loops make —
    reaches a statement that mentions a variable whose declaration has not been executed in the current activation of the
    block that declares it. -/
theorem accepted_runs_initialised (consts params : List Name) (body : Stmts)
    (hv : goFunction consts params body = [])
    (hl : Labels.goBody body = [])
    (hpl : Place.chkBody body = [])
    (fuel : Nat) (o : List Bool) :
    execFunction fuel consts params body o ≠ some .bad := by
  rw [Labels.labels_scope_iff] at hl
  rw [Place.placement_iff] at hpl
  have hb : brOKL body = true := place_brOKL body hpl
  unfold goFunction at hv
  simp only [List.append_eq_nil_iff] at hv
  generalize hst0 : ({ stack := [[]], nextId := 1, unresolved := [], pruned := [], poisoned := [] } : St) = st0 at hv
  obtain ⟨c1, c2, c3, _⟩ := declareAll_spec 0 consts st0
  obtain ⟨c5, c6⟩ := declareAll_names 0 consts st0 (by rw [← hst0]; simp)
  generalize hc : declareAll st0 0 consts = c at hv c1 c2 c3 c5 c6
  obtain ⟨p1, p2, p3, _⟩ := declareAll_spec 424 params { c.1 with stack := c.1.stack ++ [[]] }
  obtain ⟨p5, p6⟩ := declareAll_names 424 params { c.1 with stack := c.1.stack ++ [[]] } (by simp)
  generalize hp : declareAll { c.1 with stack := c.1.stack ++ [[]] } 424 params = p at hv p1 p2 p3 p5 p6
  -- the state at the start of the body
  have hun : p.1.unresolved = [] := by rw [p1]; show c.1.unresolved = []; rw [c1, ← hst0]
  have hpr : p.1.pruned = [] := by rw [p2]; show c.1.pruned = []; rw [c2, ← hst0]
  have hfl : ∀ q ∈ p.1.stack.flatten, q.2 < p.1.nextId := by
    apply p3
    intro q hq
    simp only [List.flatten_append, List.flatten_cons, List.flatten_nil, List.append_nil] at hq
    apply c3 _ q hq
    intro q hq
    rw [← hst0] at hq; simp at hq
  have g0 : Good { p.1 with stack := p.1.stack ++ [[]] } p.1.stack [] (consts ++ params) [] := by
    refine ⟨rfl, ⟨?_, ?_⟩, ?_, by simp⟩
    · intro q hq; rw [show ({ p.1 with stack := p.1.stack ++ [[]] } : St).unresolved = p.1.unresolved from rfl, hun] at hq; cases hq
    · intro id hid
      simp only [inScope, List.flatten_append, List.flatten_cons, List.flatten_nil, List.append_nil, List.mem_map] at hid
      obtain ⟨q, hq, rfl⟩ := hid
      exact hfl q hq
    · intro q hq _
      rcases p6 q hq with h | h
      · simp only [List.flatten_append, List.flatten_cons, List.flatten_nil, List.append_nil] at h
        rcases c6 q h with h' | h'
        · rw [← hst0] at h'; simp at h'
        · exact List.mem_append.mpr (Or.inl h')
      · exact List.mem_append.mpr (Or.inr h)
  have hpv : PV { p.1 with stack := p.1.stack ++ [[]] } (Labels.addLast [[]] (declaredS body)) := by
    intro l hl'
    simp [pending, hun] at hl'
  have hw := (lwf_list body _ [[]] (by simp) hb hl hpv).1
  have := (sound fuel).2 body _ p.1.stack (consts ++ params) g0 hv.2 hw hb body _ [] [] o g0 hv.2 hw hb rfl
  intro hbad
  unfold execFunction at hbad
  rw [hbad] at this
  exact this

end Vars
