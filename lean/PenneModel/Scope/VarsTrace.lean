/-
  C05, the converse direction: an E482 is never raised without cause.

  The scoper's walk over a body is a fold of `step` over the body's events in textual order
  (`evStmt`/`evList`; `goStmt_run`: same final state, every code of the walk is a code of the fold).
  `e482_justified`: whenever the fold reports E482 for a use, the events before it contain — in this
  order — a `goto l`, the declaration of the used variable, and the label `l:` with no other `l:`
  between that goto and that label: the jump skips the declaration and the use follows its target.
  The invariant (`TInv`) ties the scoper's bookkeeping to the history: every unresolved label has a
  pending goto, and a variable in scope that is missing from its intersection was declared after it;
  every pruned variable has the witnesses above.
-/
import PenneModel.Scope.VarsSkip

namespace Vars

inductive Ev where
  | use (ns : List Name)
  | decl (v : Name)
  | goto (l : Name)
  | label (l : Name)
  | enter
  | leave
  deriving DecidableEq, Repr

mutual
def evStmt : Stmt → List Ev
  | .decl v uses => [.use uses, .decl v]
  | .use vs => [.use vs]
  | .loop => []
  | .goto l => [.goto l]
  | .label l => [.label l]
  | .ifThen c t => .use c :: evStmt t
  | .ifElse c t e => .use c :: (evStmt t ++ evStmt e)
  | .block ss => .enter :: (evList ss ++ [.leave])
def evList : Stmts → List Ev
  | .nil => []
  | .cons s ss => evStmt s ++ evList ss
end

def step (st : St) : Ev → St × List Code
  | .use ns => useVars st ns
  | .decl v => declareVar st v 422
  | .goto l => (atGoto st l, [])
  | .label l => (atLabel st l, [])
  | .enter => ({ st with stack := st.stack ++ [[]] }, [])
  | .leave => ({ st with stack := st.stack.dropLast }, [])

def run (st : St) : List Ev → St × List Code
  | [] => (st, [])
  | e :: es =>
    let r := step st e
    let r' := run r.1 es
    (r'.1, r.2 ++ r'.2)

theorem run_append (st : St) (a b : List Ev) :
    run st (a ++ b) = ((run (run st a).1 b).1, (run st a).2 ++ (run (run st a).1 b).2) := by
  induction a generalizing st with
  | nil => simp [run]
  | cons e es ih => simp [run, ih, List.append_assoc]

mutual
theorem goStmt_run : ∀ (s : Stmt) (st : St),
    (goStmt st s).1 = (run st (evStmt s)).1 ∧ ∀ c ∈ (goStmt st s).2, c ∈ (run st (evStmt s)).2
  | .decl v uses, st => by
    simp only [goStmt, evStmt, run, step, List.append_nil]
    refine ⟨trivial, ?_⟩
    intro c hc
    split at hc
    · exact List.mem_append_left _ hc
    · exact List.mem_append_right _ hc
  | .use vs, st => by simp [goStmt, evStmt, run, step]
  | .loop, st => by simp [goStmt, evStmt, run]
  | .goto l, st => by simp [goStmt, evStmt, run, step]
  | .label l, st => by simp [goStmt, evStmt, run, step]
  | .ifThen c t, st => by
    obtain ⟨h1, h2⟩ := goStmt_run t (useVars st c).1
    simp only [goStmt, evStmt, run, step]
    refine ⟨h1, ?_⟩
    intro x hx
    rcases List.mem_append.1 hx with hx | hx
    · exact List.mem_append_left _ hx
    · exact List.mem_append_right _ (h2 x hx)
  | .ifElse c t e, st => by
    obtain ⟨h1, h2⟩ := goStmt_run t (useVars st c).1
    obtain ⟨h3, h4⟩ := goStmt_run e (goStmt (useVars st c).1 t).1
    simp only [goStmt, evStmt, run, step, run_append]
    rw [← h1]
    refine ⟨h3, ?_⟩
    intro x hx
    simp only [List.mem_append] at hx ⊢
    rcases hx with (hx | hx) | hx
    · exact Or.inl hx
    · exact Or.inr (Or.inl (h2 x hx))
    · exact Or.inr (Or.inr (h4 x hx))
  | .block ss, st => by
    obtain ⟨h1, h2⟩ := goList_run ss { st with stack := st.stack ++ [[]] }
    simp only [goStmt, evStmt, run, step, run_append, List.nil_append, List.append_nil]
    rw [← h1]
    refine ⟨rfl, ?_⟩
    intro x hx
    exact h2 x hx
theorem goList_run : ∀ (ss : Stmts) (st : St),
    (goList st ss).1 = (run st (evList ss)).1 ∧ ∀ c ∈ (goList st ss).2, c ∈ (run st (evList ss)).2
  | .nil, st => by simp [goList, evList, run]
  | .cons s ss, st => by
    obtain ⟨h1, h2⟩ := goStmt_run s st
    obtain ⟨h3, h4⟩ := goList_run ss (goStmt st s).1
    simp only [goList, evList, run_append]
    rw [← h1]
    refine ⟨h3, ?_⟩
    intro x hx
    simp only [List.mem_append] at hx ⊢
    rcases hx with hx | hx
    · exact Or.inl (h2 x hx)
    · exact Or.inr (h4 x hx)
end

/-! ### the history invariant -/

def countDecl : List Ev → Nat
  | [] => 0
  | .decl _ :: es => countDecl es + 1
  | .use _ :: es => countDecl es
  | .goto _ :: es => countDecl es
  | .label _ :: es => countDecl es
  | .enter :: es => countDecl es
  | .leave :: es => countDecl es

theorem countDecl_append (a b : List Ev) : countDecl (a ++ b) = countDecl a + countDecl b := by
  induction a with
  | nil => simp [countDecl]
  | cons e es ih => cases e <;> simp [countDecl, ih] <;> omega

/-- event `d` is the declaration of the name `n` that received the id `id` -/
def Born (id0 : Nat) (E : List Ev) (id : VarId) (n : Name) (d : Nat) : Prop :=
  E[d]? = some (.decl n) ∧ id = id0 + countDecl (E.take d)

theorem lt_of_getElem? {E : List Ev} {i : Nat} {e : Ev} (h : E[i]? = some e) : i < E.length := by
  rcases Nat.lt_or_ge i E.length with hl | hl
  · exact hl
  · rw [List.getElem?_eq_none hl] at h; cases h

theorem getElem?_snoc_left {E : List Ev} {i : Nat} {e : Ev} (x : List Ev) (h : E[i]? = some e) : (E ++ x)[i]? = some e := by
  rw [List.getElem?_append_left (lt_of_getElem? h)]; exact h

theorem Born.mono {id0 : Nat} {E : List Ev} {id : VarId} {n : Name} {d : Nat} (h : Born id0 E id n d) (x : List Ev) :
    Born id0 (E ++ x) id n d := by
  obtain ⟨h1, h2⟩ := h
  refine ⟨getElem?_snoc_left x h1, ?_⟩
  rw [List.take_append_of_le_length (Nat.le_of_lt (lt_of_getElem? h1))]
  exact h2

theorem countDecl_take_lt : ∀ (E : List Ev) (d d' : Nat) (n : Name), d < d' → E[d]? = some (.decl n) →
    countDecl (E.take d) < countDecl (E.take d')
  | [], d, d', n, _, h => by simp at h
  | e :: es, 0, d' + 1, n, _, h => by
    simp only [List.getElem?_cons_zero, Option.some.injEq] at h
    subst h
    simp [countDecl]
  | e :: es, d + 1, d' + 1, n, hlt, h => by
    simp only [List.getElem?_cons_succ] at h
    have := countDecl_take_lt es d d' n (by omega) h
    cases e <;> simp [countDecl] <;> omega

theorem Born.unique {id0 : Nat} {E : List Ev} {id : VarId} {n n' : Name} {d d' : Nat}
    (h : Born id0 E id n d) (h' : Born id0 E id n' d') : d = d' := by
  rcases Nat.lt_trichotomy d d' with hlt | heq | hgt
  · have := countDecl_take_lt E d d' n hlt h.1
    have e : id0 + countDecl (E.take d) = id0 + countDecl (E.take d') := h.2.symm.trans h'.2
    omega
  · exact heq
  · have := countDecl_take_lt E d' d n' hgt h'.1
    have e : id0 + countDecl (E.take d) = id0 + countDecl (E.take d') := h.2.symm.trans h'.2
    omega

/-- why an id is pruned: a pending `goto l`, then its declaration, then the label `l:` -/
def Skipped (id0 : Nat) (E : List Ev) (id : VarId) : Prop :=
  ∃ l i d j n, i < d ∧ d < j ∧ E[i]? = some (.goto l) ∧ Born id0 E id n d ∧ E[j]? = some (.label l) ∧
    ∀ m, i < m → m < j → E[m]? ≠ some (.label l)

theorem Skipped.mono {id0 : Nat} {E : List Ev} {id : VarId} (h : Skipped id0 E id) (x : List Ev) : Skipped id0 (E ++ x) id := by
  obtain ⟨l, i, d, j, n, h1, h2, h3, h4, h5, h6⟩ := h
  refine ⟨l, i, d, j, n, h1, h2, getElem?_snoc_left x h3, h4.mono x, getElem?_snoc_left x h5, ?_⟩
  intro m hm1 hm2
  rw [List.getElem?_append_left (Nat.lt_trans hm2 (lt_of_getElem? h5))]
  exact h6 m hm1 hm2

structure TInv (id0 : Nat) (E : List Ev) (st : St) : Prop where
  next : st.nextId = id0 + countDecl E
  born : ∀ q ∈ st.stack.flatten, id0 ≤ q.2 → ∃ d, Born id0 E q.2 q.1 d
  pend : ∀ p ∈ st.unresolved, ∃ i, E[i]? = some (.goto p.1) ∧ (∀ m, i < m → E[m]? ≠ some (.label p.1)) ∧
    ∀ q ∈ st.stack.flatten, q.2 ∉ p.2 → ∃ d, i < d ∧ Born id0 E q.2 q.1 d
  pruned : ∀ id ∈ st.pruned, Skipped id0 E id

/-- the pending-goto witness survives one more event that is not its label -/
theorem pend_mono {id0 : Nat} {E : List Ev} {stack : List (List (Name × VarId))} {p : Name × List VarId} {e : Ev}
    (he : e ≠ .label p.1)
    (h : ∃ i, E[i]? = some (.goto p.1) ∧ (∀ m, i < m → E[m]? ≠ some (.label p.1)) ∧
      ∀ q ∈ stack.flatten, q.2 ∉ p.2 → ∃ d, i < d ∧ Born id0 E q.2 q.1 d) :
    ∃ i, (E ++ [e])[i]? = some (.goto p.1) ∧ (∀ m, i < m → (E ++ [e])[m]? ≠ some (.label p.1)) ∧
      ∀ q ∈ stack.flatten, q.2 ∉ p.2 → ∃ d, i < d ∧ Born id0 (E ++ [e]) q.2 q.1 d := by
  obtain ⟨i, h1, h2, h3⟩ := h
  refine ⟨i, getElem?_snoc_left _ h1, ?_, ?_⟩
  · intro m hm
    rcases Nat.lt_or_ge m E.length with hl | hl
    · rw [List.getElem?_append_left hl]; exact h2 m hm
    · rw [List.getElem?_append_right hl]
      rcases Nat.eq_zero_or_pos (m - E.length) with h0 | h0
      · rw [h0]; simp only [List.getElem?_cons_zero, ne_eq, Option.some.injEq]; exact he
      · rw [List.getElem?_eq_none (by simp only [List.length_cons, List.length_nil]; omega)]; simp
  · intro q hq hn
    obtain ⟨d, hd1, hd2⟩ := h3 q hq hn
    exact ⟨d, hd1, hd2.mono _⟩

theorem useVar_pruned_sub (st : St) (n : Name) (id : VarId) (h : id ∈ (useVar st n).1.pruned) : id ∈ st.pruned := by
  unfold useVar at h
  split at h
  · exact h
  · split at h
    · exact List.mem_of_mem_erase h
    · exact h

theorem useVars_pruned_sub (st : St) (ns : List Name) (id : VarId) (h : id ∈ (useVars st ns).1.pruned) : id ∈ st.pruned := by
  induction ns generalizing st with
  | nil => exact h
  | cons n ns ih => exact useVar_pruned_sub st n id (ih _ h)

theorem mem_flatten_dropLast {α : Type} (stk : List (List α)) (q : α) (h : q ∈ stk.dropLast.flatten) : q ∈ stk.flatten := by
  simp only [List.mem_flatten] at h ⊢
  obtain ⟨l, hl, hq⟩ := h
  exact ⟨l, List.dropLast_subset _ hl, hq⟩

theorem find_key {us : List (Name × List VarId)} {l : Name} {p : Name × List VarId}
    (h : us.find? (fun p => p.1 == l) = some p) : p ∈ us ∧ p.1 = l := by
  refine ⟨List.mem_of_find?_eq_some h, ?_⟩
  have := List.find?_some h
  simpa using this

theorem find_none_key {us : List (Name × List VarId)} {l : Name}
    (h : us.find? (fun p => p.1 == l) = none) : ∀ p ∈ us, p.1 ≠ l := by
  intro p hp
  have := List.find?_eq_none.1 h p hp
  simpa using this

theorem step_inv (id0 : Nat) (E : List Ev) (st : St) (e : Ev) (h : TInv id0 E st) : TInv id0 (E ++ [e]) (step st e).1 := by
  cases e with
  | use ns =>
    simp only [step]
    refine ⟨?_, ?_, ?_, ?_⟩
    · rw [useVars_nextId, countDecl_append, h.next]; simp [countDecl]
    · rw [useVars_stack]
      intro q hq hge
      obtain ⟨d, hd⟩ := h.born q hq hge
      exact ⟨d, hd.mono _⟩
    · rw [useVars_unresolved, useVars_stack]
      intro p hp
      exact pend_mono (by simp) (h.pend p hp)
    · intro id hid
      exact (h.pruned id (useVars_pruned_sub st ns id hid)).mono _
  | decl v =>
    simp only [step, declareVar]
    have hnew : Born id0 (E ++ [Ev.decl v]) st.nextId v E.length := by
      refine ⟨by simp, ?_⟩
      rw [List.take_left']
      · exact h.next
      · rfl
    refine ⟨?_, ?_, ?_, ?_⟩
    · show st.nextId + 1 = id0 + countDecl (E ++ [Ev.decl v])
      rw [countDecl_append, h.next]; simp only [countDecl]; exact Nat.add_assoc _ _ _
    · intro q hq hge
      simp only [pushLayer_eq, flatten_addLast, List.mem_append, List.mem_singleton] at hq
      rcases hq with hq | hq
      · obtain ⟨d, hd⟩ := h.born q hq hge
        exact ⟨d, hd.mono _⟩
      · subst hq
        exact ⟨E.length, hnew⟩
    · intro p hp
      obtain ⟨i, h1, h2, h3⟩ := pend_mono (e := Ev.decl v) (by simp) (h.pend p hp)
      refine ⟨i, h1, h2, ?_⟩
      intro q hq hn
      simp only [pushLayer_eq, flatten_addLast, List.mem_append, List.mem_singleton] at hq
      rcases hq with hq | hq
      · exact h3 q hq hn
      · subst hq
        obtain ⟨i0, g1, _, _⟩ := h.pend p hp
        have hi : i = i ∧ True := ⟨rfl, trivial⟩
        refine ⟨E.length, ?_, hnew⟩
        have := lt_of_getElem? h1
        simp only [List.length_append, List.length_cons, List.length_nil] at this
        -- the goto is an event of E: position `i` holds a goto, position `E.length` a declaration
        rcases Nat.lt_or_ge i E.length with hl | hl
        · exact hl
        · have hEq : i = E.length := by omega
          rw [hEq] at h1
          simp at h1
    · intro id hid
      exact (h.pruned id hid).mono _
  | goto l =>
    simp only [step]
    refine ⟨?_, ?_, ?_, ?_⟩
    · rw [atGoto_nextId, countDecl_append, h.next]; simp [countDecl]
    · rw [atGoto_stack]
      intro q hq hge
      obtain ⟨d, hd⟩ := h.born q hq hge
      exact ⟨d, hd.mono _⟩
    · rw [atGoto_stack]
      unfold atGoto
      split
      · rename_i l' inter hf
        obtain ⟨hmem, hkey⟩ := find_key hf
        simp only at hkey
        intro p' hp'
        simp only [List.mem_map] at hp'
        obtain ⟨p, hp, rfl⟩ := hp'
        by_cases hk : (p.1 == l) = true
        · simp only [hk, if_true]
          obtain ⟨i, h1, h2, h3⟩ := pend_mono (e := Ev.goto l) (by simp) (h.pend (l', inter) hmem)
          simp only [hkey] at h1 h2 h3
          refine ⟨i, h1, h2, ?_⟩
          intro q hq hn
          apply h3 q hq
          intro hin
          apply hn
          simp only [List.mem_filter, hin, true_and]
          simp only [inScope, List.contains_eq_mem, List.mem_map, decide_eq_true_eq]
          exact ⟨q, hq, rfl⟩
        · simp only [hk, Bool.false_eq_true, if_false]
          exact pend_mono (by simp) (h.pend p hp)
      · intro p hp
        simp only [List.mem_cons] at hp
        rcases hp with hp | hp
        · subst hp
          refine ⟨E.length, by simp, ?_, ?_⟩
          · intro m hm
            rw [List.getElem?_eq_none (by simp only [List.length_append, List.length_cons, List.length_nil]; omega)]
            simp
          · intro q hq hn
            exfalso; apply hn
            simp only [inScope, List.mem_map]
            exact ⟨q, hq, rfl⟩
        · exact pend_mono (by simp) (h.pend p hp)
    · rw [atGoto_pruned]
      intro id hid
      exact (h.pruned id hid).mono _
  | label l =>
    simp only [step]
    refine ⟨?_, ?_, ?_, ?_⟩
    · rw [atLabel_nextId, countDecl_append, h.next]; simp [countDecl]
    · rw [atLabel_stack]
      intro q hq hge
      obtain ⟨d, hd⟩ := h.born q hq hge
      exact ⟨d, hd.mono _⟩
    · rw [atLabel_stack]
      unfold atLabel
      split
      · rename_i hf
        intro p hp
        have hne := find_none_key hf p hp
        exact pend_mono (by simp; exact fun h => hne h.symm) (h.pend p hp)
      · rename_i l' inter hf
        have key : ∀ p ∈ st.unresolved.filter (fun p => p.1 != l),
            ∃ i, (E ++ [Ev.label l])[i]? = some (.goto p.1) ∧ (∀ m, i < m → (E ++ [Ev.label l])[m]? ≠ some (.label p.1)) ∧
              ∀ q ∈ st.stack.flatten, q.2 ∉ p.2 → ∃ d, i < d ∧ Born id0 (E ++ [Ev.label l]) q.2 q.1 d := by
          intro p hp
          simp only [List.mem_filter, bne_iff_ne, ne_eq] at hp
          exact pend_mono (by simp; exact fun h => hp.2 h.symm) (h.pend p hp.1)
        split
        · exact key
        · exact key
    · unfold atLabel
      split
      · intro id hid
        exact (h.pruned id hid).mono _
      · rename_i l' inter hf
        obtain ⟨hmem, hkey⟩ := find_key hf
        simp only at hkey
        split
        · intro id hid
          exact (h.pruned id hid).mono _
        · rename_i layer hlast
          intro id hid
          simp only [List.mem_append] at hid
          rcases hid with hid | hid
          · exact (h.pruned id hid).mono _
          · simp only [List.mem_filter, List.mem_map, Bool.and_eq_true, Bool.not_eq_true', List.contains_eq_mem,
              decide_eq_false_iff_not] at hid
            obtain ⟨⟨q, hq, rfl⟩, hni, _⟩ := hid
            have hlayer : layer ∈ st.stack := List.mem_of_getLast? hlast
            have hqf : q ∈ st.stack.flatten := List.mem_flatten.2 ⟨layer, hlayer, hq⟩
            obtain ⟨i, h1, h2, h3⟩ := h.pend (l', inter) hmem
            simp only [hkey] at h1 h2
            obtain ⟨d, hd1, hd2⟩ := h3 q hqf hni
            have hdl := lt_of_getElem? hd2.1
            refine ⟨l, i, d, E.length, q.1, hd1, hdl, getElem?_snoc_left _ h1, hd2.mono _, by simp, ?_⟩
            intro m hm1 hm2
            rw [List.getElem?_append_left hm2]
            exact h2 m hm1
  | enter =>
    simp only [step]
    refine ⟨?_, ?_, ?_, ?_⟩
    · show st.nextId = _
      rw [countDecl_append, h.next]; simp [countDecl]
    · intro q hq hge
      simp only [List.flatten_append, List.flatten_cons, List.flatten_nil, List.append_nil] at hq
      obtain ⟨d, hd⟩ := h.born q hq hge
      exact ⟨d, hd.mono _⟩
    · intro p hp
      obtain ⟨i, h1, h2, h3⟩ := pend_mono (e := Ev.enter) (by simp) (h.pend p hp)
      refine ⟨i, h1, h2, ?_⟩
      intro q hq
      simp only [List.flatten_append, List.flatten_cons, List.flatten_nil, List.append_nil] at hq
      exact h3 q hq
    · intro id hid
      exact (h.pruned id hid).mono _
  | leave =>
    simp only [step]
    refine ⟨?_, ?_, ?_, ?_⟩
    · show st.nextId = _
      rw [countDecl_append, h.next]; simp [countDecl]
    · intro q hq hge
      obtain ⟨d, hd⟩ := h.born q (mem_flatten_dropLast _ q hq) hge
      exact ⟨d, hd.mono _⟩
    · intro p hp
      obtain ⟨i, h1, h2, h3⟩ := pend_mono (e := Ev.leave) (by simp) (h.pend p hp)
      refine ⟨i, h1, h2, ?_⟩
      intro q hq
      exact h3 q (mem_flatten_dropLast _ q hq)
    · intro id hid
      exact (h.pruned id hid).mono _

/-! ### an E482 has a cause -/

theorem lookup_mem {stk : List (List (Name × VarId))} {n : Name} {id : VarId} (h : lookup stk n = some id) :
    (n, id) ∈ stk.flatten := by
  unfold lookup at h
  cases hf : stk.flatten.find? (fun p => p.1 == n) with
  | none => rw [hf] at h; cases h
  | some p =>
    rw [hf] at h
    simp only [Option.map_some, Option.some.injEq] at h
    have hm := List.mem_of_find?_eq_some hf
    have hk := List.find?_some hf
    simp only [beq_iff_eq] at hk
    obtain ⟨a, b⟩ := p
    simp only at h hk
    subst h; subst hk
    exact hm

theorem useVar_482 (st : St) (n : Name) (h : 482 ∈ (useVar st n).2) :
    ∃ id, lookup st.stack n = some id ∧ id ∈ st.pruned := by
  unfold useVar at h
  split at h
  · simp at h
  · rename_i id hl
    split at h
    · rename_i hp
      exact ⟨id, hl, by simpa using hp⟩
    · simp at h

theorem useVars_482 (st : St) (ns : List Name) (h : 482 ∈ (useVars st ns).2) :
    ∃ n ∈ ns, ∃ id, lookup st.stack n = some id ∧ id ∈ st.pruned := by
  induction ns generalizing st with
  | nil => simp [useVars] at h
  | cons n ns ih =>
    simp only [useVars, List.mem_append] at h
    rcases h with h | h
    · obtain ⟨id, h1, h2⟩ := useVar_482 st n h
      exact ⟨n, by simp, id, h1, h2⟩
    · obtain ⟨n', hn', id, h1, h2⟩ := ih _ h
      rw [useVar_stack] at h1
      exact ⟨n', by simp [hn'], id, h1, useVar_pruned_sub st n id h2⟩

theorem step_482 (st : St) (e : Ev) (h : 482 ∈ (step st e).2) :
    ∃ ns, e = .use ns ∧ ∃ n ∈ ns, ∃ id, lookup st.stack n = some id ∧ id ∈ st.pruned := by
  cases e with
  | use ns => exact ⟨ns, rfl, useVars_482 st ns h⟩
  | decl v =>
    simp only [step, declareVar] at h
    split at h <;> simp at h
  | goto l => simp [step] at h
  | label l => simp [step] at h
  | enter => simp [step] at h
  | leave => simp [step] at h

/-- the events `F` contain a forward jump over the declaration of a variable that is used after the jump's target -/
def Justified (F : List Ev) : Prop :=
  ∃ (l v : Name) (i d j k : Nat) (ns : List Name), i < d ∧ d < j ∧ j < k ∧ F[i]? = some (Ev.goto l) ∧ F[d]? = some (Ev.decl v) ∧ F[j]? = some (Ev.label l) ∧
    (∀ m, i < m → m < j → F[m]? ≠ some (Ev.label l)) ∧ F[k]? = some (Ev.use ns) ∧ v ∈ ns

theorem run_justified (id0 : Nat) : ∀ (rest E : List Ev) (st : St), TInv id0 E st → 482 ∈ (run st rest).2 →
    Justified (E ++ rest)
  | [], E, st, _, h => by simp [run] at h
  | e :: es, E, st, hinv, h => by
    simp only [run, List.mem_append] at h
    rcases h with h | h
    · obtain ⟨ns, rfl, n, hn, id, hl, hp⟩ := step_482 st e h
      obtain ⟨l, i, d, j, n', h1, h2, h3, h4, h5, h6⟩ := hinv.pruned id hp
      have hmem := lookup_mem hl
      have hge : id0 ≤ id := by
        rw [h4.2]; exact Nat.le_add_right id0 _
      obtain ⟨d', hd'⟩ := hinv.born (n, id) hmem hge
      have hdd : d = d' := h4.unique hd'
      subst hdd
      have hjl := lt_of_getElem? h5
      refine ⟨l, n, i, d, j, E.length, ns, h1, h2, hjl, getElem?_snoc_left _ h3, getElem?_snoc_left _ hd'.1,
        getElem?_snoc_left _ h5, ?_, by simp, hn⟩
      intro m hm1 hm2
      rw [List.getElem?_append_left (Nat.lt_trans hm2 hjl)]
      exact h6 m hm1 hm2
    · have := run_justified id0 es (E ++ [e]) (step st e).1 (step_inv id0 E st e hinv) h
      simpa only [List.append_assoc, List.cons_append, List.nil_append] using this

/-- **no false E482** (events): from a state without pending gotos or pruned variables, an E482 implies that the
    events contain `goto l … declaration of v … l: … use of v`, with no other `l:` between the goto and the label -/
theorem e482_justified (st : St) (hu : st.unresolved = []) (hp : st.pruned = [])
    (hfresh : ∀ q ∈ st.stack.flatten, q.2 < st.nextId) (E : List Ev)
    (h : 482 ∈ (run st E).2) : Justified E := by
  have hinv : TInv st.nextId [] st := by
    refine ⟨by simp [countDecl], ?_, ?_, ?_⟩
    · intro q hq hge
      exact absurd (hfresh q hq) (Nat.not_lt.2 hge)
    · intro p hp'; rw [hu] at hp'; simp at hp'
    · intro id hid; rw [hp] at hid; simp at hid
  simpa using run_justified st.nextId E [] st hinv h

/-! ### whole functions -/

theorem declareAll_spec (dup : Code) : ∀ (ns : List Name) (st : St),
    (declareAll st dup ns).1.unresolved = st.unresolved ∧ (declareAll st dup ns).1.pruned = st.pruned ∧
    ((∀ q ∈ st.stack.flatten, q.2 < st.nextId) → ∀ q ∈ (declareAll st dup ns).1.stack.flatten, q.2 < (declareAll st dup ns).1.nextId) ∧
    ∀ c ∈ (declareAll st dup ns).2, c = dup
  | [], st => by simp [declareAll]
  | n :: ns, st => by
    obtain ⟨h1, h2, h3, h4⟩ := declareAll_spec dup ns (declareVar st n dup).1
    simp only [declareAll]
    refine ⟨h1, h2, ?_, ?_⟩
    · intro hf
      apply h3
      intro q hq
      simp only [declareVar, pushLayer_eq, flatten_addLast, List.mem_append, List.mem_singleton] at hq ⊢
      rcases hq with hq | hq
      · exact Nat.lt_succ_of_lt (hf q hq)
      · subst hq; exact Nat.lt_succ_self _
    · intro c hc
      simp only [List.mem_append] at hc
      rcases hc with hc | hc
      · simp only [declareVar] at hc
        split at hc
        · simpa using hc
        · simp at hc
      · exact h4 c hc

/-- **no false E482**: if the analysis of a function reports E482, its body contains, in textual order, a `goto l`,
    the declaration of a variable, the label `l:` (no other `l:` in between) and a use of that variable -/
theorem no_false_e482 (consts params : List Name) (body : Stmts) (h : 482 ∈ goFunction consts params body) :
    Justified (evList body) := by
  unfold goFunction at h
  simp only at h
  generalize hst0 : ({ stack := [[]], nextId := 1, unresolved := [], pruned := [], poisoned := [] } : St) = st0 at h
  obtain ⟨c1, c2, c3, _⟩ := declareAll_spec 0 consts st0
  generalize hc : declareAll st0 0 consts = c at h c1 c2 c3
  obtain ⟨p1, p2, p3, p4⟩ := declareAll_spec 424 params { c.1 with stack := c.1.stack ++ [[]] }
  generalize hp : declareAll { c.1 with stack := c.1.stack ++ [[]] } 424 params = p at h p1 p2 p3 p4
  simp only [List.mem_append] at h
  rcases h with h | h
  · have := p4 482 h; exact absurd this (by decide)
  · have hrun := (goList_run body { p.1 with stack := p.1.stack ++ [[]] }).2 482 h
    apply e482_justified _ ?_ ?_ ?_ _ hrun
    · show p.1.unresolved = []
      rw [p1]; show c.1.unresolved = []
      rw [c1, ← hst0]
    · show p.1.pruned = []
      rw [p2]; show c.1.pruned = []
      rw [c2, ← hst0]
    · intro q hq
      simp only [List.flatten_append, List.flatten_cons, List.flatten_nil, List.append_nil] at hq
      apply p3 _ q hq
      intro q hq
      simp only [List.flatten_append, List.flatten_cons, List.flatten_nil, List.append_nil] at hq
      apply c3 _ q hq
      intro q hq
      rw [← hst0] at hq; simp at hq

end Vars
