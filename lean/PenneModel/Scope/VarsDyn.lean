/-
  C05, run-time meaning: what "no forward jump can reach a use while skipping the declaration" says about executions.

  A small-step-free (fuel-indexed, big-step) control semantics of statement skeletons, as in CF/Defs.lean (`jump l`
  searches the rest of the current block for `l:` and otherwise leaves the block; a block that reaches `loop` starts
  over), which in addition tracks which variables have been *initialised*: the names whose declaration statement has
  been executed in the current activation of the block that declares them.  Conditions take their outcome from an
  oracle, so a run stands for any behaviour of the opaque expressions.  A run is `bad` when a statement mentions a
  variable that is not initialised at that moment.

  `outer`: the initialised names of the enclosing activations (constants, parameters, enclosing blocks);
  `top`: those of the current block.  A block starts with `top = []`, and so does every new round of a loop.
-/
import PenneModel.Skel

namespace Vars
namespace Dyn

inductive Flow where
  | next
  | jump (l : Name)
  | again
  deriving DecidableEq, Repr

inductive Res where
  | bad
  | ok (top : List Name) (o : List Bool) (fl : Flow)
  deriving DecidableEq, Repr

def inited (outer top : List Name) (n : Name) : Bool := outer.contains n || top.contains n

def allInited (outer top : List Name) (ns : List Name) : Bool := ns.all (inited outer top)

/-- the statements after the label `l` in this list (only a label that is a statement of this very list) -/
def dropToLabel (l : Name) : Stmts → Option Stmts
  | .nil => none
  | .cons (.label l') rest => if l' = l then some rest else dropToLabel l rest
  | .cons _ rest => dropToLabel l rest

mutual
def execS : Nat → List Name → List Name → Stmt → List Bool → Option Res
  | 0, _, _, _, _ => none
  | _ + 1, outer, top, .decl v us, o =>
    if allInited outer top us then some (.ok (top ++ [v]) o .next) else some .bad
  | _ + 1, outer, top, .use vs, o =>
    if allInited outer top vs then some (.ok top o .next) else some .bad
  | _ + 1, _, top, .goto l, o => some (.ok top o (.jump l))
  | _ + 1, _, top, .label _, o => some (.ok top o .next)
  | _ + 1, _, top, .loop, o => some (.ok top o .again)
  | f + 1, outer, top, .ifThen c t, o =>
    if allInited outer top c then
      match o with
      | [] => none
      | b :: o' => if b then execS f outer top t o' else some (.ok top o' .next)
    else some .bad
  | f + 1, outer, top, .ifElse c t e, o =>
    if allInited outer top c then
      match o with
      | [] => none
      | b :: o' => execS f outer top (if b then t else e) o'
    else some .bad
  | f + 1, outer, top, .block ss, o =>
    match execL f (outer ++ top) [] ss ss o with
    | none => none
    | some .bad => some .bad
    | some (.ok _ o' fl) => some (.ok top o' fl)
/-- `whole`: the block (for `loop`), `rest`: what is left of it -/
def execL : Nat → List Name → List Name → Stmts → Stmts → List Bool → Option Res
  | 0, _, _, _, _, _ => none
  | _ + 1, _, top, _, .nil, o => some (.ok top o .next)
  | f + 1, outer, top, whole, .cons s rest, o =>
    match execS f outer top s o with
    | none => none
    | some .bad => some .bad
    | some (.ok top1 o1 .next) => execL f outer top1 whole rest o1
    | some (.ok top1 o1 (.jump l)) =>
      match dropToLabel l rest with
      | some rest' => execL f outer top1 whole rest' o1
      | none => some (.ok top1 o1 (.jump l))
    | some (.ok _ o1 .again) => execL f outer [] whole whole o1
end

/-- a function: constants and parameters are initialised, the body is the outermost block -/
def execFunction (fuel : Nat) (consts params : List Name) (body : Stmts) (o : List Bool) : Option Res :=
  execL fuel (consts ++ params) [] body body o

/-! the semantics does tell programs apart: skipping a declaration is `bad`, not skipping it is fine -/

-- `goto 1; var 7; 1: use 7`
example : execFunction 10 [] [] (.cons (.goto 1) (.cons (.decl 7 []) (.cons (.label 1) (.cons (.use [7]) .nil)))) []
    = some .bad := by decide
-- `if c goto 1; var 7; 1: use 7`: bad exactly when the condition holds
example : execFunction 10 [] [] (.cons (.ifThen [] (.goto 1)) (.cons (.decl 7 []) (.cons (.label 1) (.cons (.use [7]) .nil)))) [true]
    = some .bad := by decide
example : execFunction 10 [] [] (.cons (.ifThen [] (.goto 1)) (.cons (.decl 7 []) (.cons (.label 1) (.cons (.use [7]) .nil)))) [false]
    = some (.ok [7] [] .next) := by decide
-- a variable of a block is gone after the block, and not yet there in the next round of a loop
example : execFunction 10 [] [] (.cons (.block (.cons (.decl 7 []) .nil)) (.cons (.use [7]) .nil)) [] = some .bad := by decide
example : execFunction 20 [] [] (.cons (.block (.cons (.use [7]) (.cons (.decl 7 []) (.cons .loop .nil)))) .nil) []
    = some .bad := by decide

end Dyn
end Vars
