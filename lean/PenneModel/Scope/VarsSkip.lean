/-
  C05 — every use of a variable whose declaration a `goto` can skip is reported.

  Invariants of the scoper's state (`Fresh`: ids in pending goto sets are older than `nextId`), what
  arbitrary statements preserve (a pending label stays pending with a set that only shrinks, as long as the
  label itself does not occur; a pruned variable stays pruned until it is reported), and the theorem
  `skip_detected`.
-/
import PenneModel.Scope.VarsLemmas

namespace Vars

def pending (st : St) (l : Name) : Option (List VarId) :=
  (st.unresolved.find? (fun p => p.1 == l)).map (·.2)

mutual
def noLabel (l : Name) : Stmt → Bool
  | .label n => n != l
  | .ifThen _ t => noLabel l t
  | .ifElse _ t e => noLabel l t && noLabel l e
  | .block ss => noLabelL l ss
  | _ => true
def noLabelL (l : Name) : Stmts → Bool
  | .nil => true
  | .cons s ss => noLabel l s && noLabelL l ss
end

/-- the rejection this theorem is about: a skipped declaration (E482) or a clashing one (E422) -/
def Rej (cs : List Code) : Prop := 482 ∈ cs ∨ 422 ∈ cs

def Fresh (st : St) : Prop :=
  (∀ p ∈ st.unresolved, ∀ id ∈ p.2, id < st.nextId) ∧ (∀ id ∈ inScope st, id < st.nextId)

/-! ### one use -/

theorem useVar_unresolved (st : St) (n : Name) : (useVar st n).1.unresolved = st.unresolved := by
  unfold useVar; split
  · rfl
  · split <;> rfl

theorem useVar_nextId (st : St) (n : Name) : (useVar st n).1.nextId = st.nextId := by
  unfold useVar; split
  · rfl
  · split <;> rfl

theorem useVars_unresolved (st : St) (ns : List Name) : (useVars st ns).1.unresolved = st.unresolved := by
  induction ns generalizing st with
  | nil => rfl
  | cons n ns ih => simp [useVars, ih, useVar_unresolved]

theorem useVars_nextId (st : St) (ns : List Name) : (useVars st ns).1.nextId = st.nextId := by
  induction ns generalizing st with
  | nil => rfl
  | cons n ns ih => simp [useVars, ih, useVar_nextId]

/-- a use either reports E482, or leaves a given pruned id pruned -/
theorem useVar_pruned (st : St) (n : Name) (id : VarId) (h : id ∈ st.pruned) :
    482 ∈ (useVar st n).2 ∨ id ∈ (useVar st n).1.pruned := by
  unfold useVar
  split
  · exact Or.inr h
  · split
    · exact Or.inl (by simp)
    · exact Or.inr h

theorem useVars_pruned (st : St) (ns : List Name) (id : VarId) (h : id ∈ st.pruned) :
    482 ∈ (useVars st ns).2 ∨ id ∈ (useVars st ns).1.pruned := by
  induction ns generalizing st with
  | nil => exact Or.inr h
  | cons n ns ih =>
    simp only [useVars]
    rcases useVar_pruned st n id h with h1 | h1
    · exact Or.inl (by simp [h1])
    · rcases ih (useVar st n).1 h1 with h2 | h2
      · exact Or.inl (by simp [h2])
      · exact Or.inr h2

/-- the use of a name that resolves to a pruned id is reported -/
theorem useVar_reports (st : St) (n : Name) (id : VarId) (hl : lookup st.stack n = some id) (hp : id ∈ st.pruned) :
    482 ∈ (useVar st n).2 := by
  unfold useVar
  simp [hl, hp]

/-! ### pending labels -/

theorem find_map_key (l : Name) (g : Name × List VarId → Name × List VarId) (hg : ∀ p, (g p).1 = p.1) :
    ∀ u : List (Name × List VarId),
      (u.map g).find? (fun p => p.1 == l) = (u.find? (fun p => p.1 == l)).map g
  | [] => rfl
  | x :: u => by
    simp only [List.map_cons, List.find?_cons, hg]
    split
    · rfl
    · exact find_map_key l g hg u

theorem find_filter_key (l l2 : Name) (h : l2 ≠ l) :
    ∀ u : List (Name × List VarId),
      (u.filter (fun p => p.1 != l2)).find? (fun p => p.1 == l) = u.find? (fun p => p.1 == l)
  | [] => rfl
  | x :: u => by
    by_cases hx : x.1 = l
    · have hne : ¬ l = l2 := fun e => h e.symm
      simp [List.filter_cons, List.find?_cons, hx, hne]
    · by_cases hx2 : x.1 = l2
      · simp [List.filter_cons, hx2, List.find?_cons, h, find_filter_key l l2 h u]
      · simp [List.filter_cons, hx2, List.find?_cons, hx, find_filter_key l l2 h u]

/-- a goto leaves every pending label pending, with a set that can only shrink -/
theorem atGoto_pending (st : St) (l l2 : Name) (I : List VarId) (h : pending st l = some I) :
    ∃ I', pending (atGoto st l2) l = some I' ∧ ∀ id ∈ I', id ∈ I := by
  unfold atGoto
  cases hf : st.unresolved.find? (fun p => p.1 == l2) with
  | none =>
    have hne : l2 ≠ l := by
      intro he; subst he
      simp [pending, hf] at h
    refine ⟨I, ?_, fun _ h => h⟩
    simp only [pending, List.find?_cons]
    have : ((l2 == l) = false) := by simp [hne]
    simp only [this]
    exact h
  | some q =>
    obtain ⟨k, inter⟩ := q
    simp only [pending]
    rw [find_map_key l _ (by intro p; split <;> simp_all)]
    simp only [pending] at h
    cases hu : st.unresolved.find? (fun p => p.1 == l) with
    | none => simp [hu] at h
    | some e =>
      obtain ⟨k2, I2⟩ := e
      simp only [hu, Option.map_some, Option.some.injEq] at h
      subst h
      have hk2 : k2 = l := by
        have := List.find?_some hu
        simpa using this
      subst hk2
      by_cases he : k2 = l2
      · subst he
        have : inter = I2 := by
          rw [hu] at hf; simp at hf; exact hf.2.symm
        subst this
        refine ⟨inter.filter (fun x => decide (x ∈ inScope st)), by simp, ?_⟩
        intro id hid
        exact (List.mem_filter.mp hid).1
      · refine ⟨I2, by simp [he], fun _ h => h⟩

/-- a label statement for another label leaves a pending label pending with the same set -/
theorem atLabel_pending (st : St) (l l2 : Name) (hne : l2 ≠ l) (I : List VarId) (h : pending st l = some I) :
    pending (atLabel st l2) l = some I := by
  unfold atLabel
  split
  · exact h
  · split
    · simp only [pending]; rw [find_filter_key l l2 hne]; exact h
    · simp only [pending]; rw [find_filter_key l l2 hne]; exact h

theorem pending_congr {st st' : St} (h : st'.unresolved = st.unresolved) (l : Name) : pending st' l = pending st l := by
  simp [pending, h]

theorem declareVar_unresolved (st : St) (n : Name) (dup : Code) : (declareVar st n dup).1.unresolved = st.unresolved := rfl

mutual
/-- **a pending label stays pending** through any statement in which that label does not occur, and the set of
    variables known to be declared on every jump to it only shrinks -/
theorem goStmt_pending (l : Name) : ∀ (s : Stmt) (st : St) (I : List VarId), pending st l = some I → noLabel l s = true →
    ∃ I', pending (goStmt st s).1 l = some I' ∧ ∀ id ∈ I', id ∈ I
  | .decl v us, st, I, h, _ => by
    refine ⟨I, ?_, fun _ h => h⟩
    simp only [goStmt]
    rw [pending_congr (st := st) (by simp [declareVar_unresolved, useVars_unresolved])]
    exact h
  | .use vs, st, I, h, _ => ⟨I, by simp only [goStmt]; rw [pending_congr (useVars_unresolved st vs)]; exact h, fun _ h => h⟩
  | .loop, st, I, h, _ => ⟨I, h, fun _ h => h⟩
  | .goto l2, st, I, h, _ => by simp only [goStmt]; exact atGoto_pending st l l2 I h
  | .label l2, st, I, h, hn => by
    simp only [noLabel, bne_iff_ne, ne_eq] at hn
    exact ⟨I, by simp only [goStmt]; exact atLabel_pending st l l2 hn I h, fun _ h => h⟩
  | .ifThen c t, st, I, h, hn => by
    simp only [noLabel] at hn
    simp only [goStmt]
    exact goStmt_pending l t (useVars st c).1 I (by rw [pending_congr (useVars_unresolved st c)]; exact h) hn
  | .ifElse c t e, st, I, h, hn => by
    simp only [noLabel, Bool.and_eq_true] at hn
    simp only [goStmt]
    obtain ⟨I1, h1, hs1⟩ := goStmt_pending l t (useVars st c).1 I (by rw [pending_congr (useVars_unresolved st c)]; exact h) hn.1
    obtain ⟨I2, h2, hs2⟩ := goStmt_pending l e _ I1 h1 hn.2
    exact ⟨I2, h2, fun id hid => hs1 id (hs2 id hid)⟩
  | .block ss, st, I, h, hn => by
    simp only [noLabel] at hn
    simp only [goStmt]
    obtain ⟨I1, h1, hs1⟩ := goList_pending l ss { st with stack := st.stack ++ [[]] } I (by simpa [pending] using h) hn
    exact ⟨I1, by simpa [pending] using h1, hs1⟩
theorem goList_pending (l : Name) : ∀ (ss : Stmts) (st : St) (I : List VarId), pending st l = some I → noLabelL l ss = true →
    ∃ I', pending (goList st ss).1 l = some I' ∧ ∀ id ∈ I', id ∈ I
  | .nil, st, I, h, _ => ⟨I, h, fun _ h => h⟩
  | .cons s ss, st, I, h, hn => by
    simp only [noLabelL, Bool.and_eq_true] at hn
    simp only [goList]
    obtain ⟨I1, h1, hs1⟩ := goStmt_pending l s st I h hn.1
    obtain ⟨I2, h2, hs2⟩ := goList_pending l ss _ I1 h1 hn.2
    exact ⟨I2, h2, fun id hid => hs1 id (hs2 id hid)⟩
end

/-! ### freshness of ids -/

theorem flatten_addLast (stk : List (List (Name × VarId))) (a : List (Name × VarId)) :
    (addLast stk a).flatten = stk.flatten ++ a := by
  induction stk with
  | nil => simp [addLast]
  | cons l rest ih => cases rest with
    | nil => simp [addLast]
    | cons l' rest' => simp only [addLast, List.flatten_cons, ih, List.append_assoc]

theorem useVar_fresh (st : St) (n : Name) (h : Fresh st) : Fresh (useVar st n).1 := by
  unfold Fresh inScope at *
  rw [useVar_unresolved, useVar_nextId, useVar_stack]
  exact h

theorem useVars_fresh (st : St) (ns : List Name) (h : Fresh st) : Fresh (useVars st ns).1 := by
  unfold Fresh inScope at *
  rw [useVars_unresolved, useVars_nextId, useVars_stack]
  exact h

theorem declareVar_fresh (st : St) (n : Name) (dup : Code) (h : Fresh st) : Fresh (declareVar st n dup).1 := by
  obtain ⟨h1, h2⟩ := h
  constructor
  · intro p hp id hid
    exact Nat.lt_succ_of_lt (h1 p hp id hid)
  · intro id hid
    simp only [declareVar, inScope, pushLayer_eq, flatten_addLast, List.map_append, List.mem_append, List.map_cons,
      List.map_nil, List.mem_singleton] at hid
    rcases hid with hid | hid
    · exact Nat.lt_succ_of_lt (h2 id (by simpa [inScope] using hid))
    · show id < st.nextId + 1
      rw [hid]; exact Nat.lt_succ_self _

theorem atGoto_fresh (st : St) (l : Name) (h : Fresh st) : Fresh (atGoto st l) := by
  obtain ⟨h1, h2⟩ := h
  unfold atGoto
  split
  · rename_i k inter hf
    constructor
    · intro p hp id hid
      simp only [List.mem_map] at hp
      obtain ⟨q, hq, rfl⟩ := hp
      split at hid
      · have hmem := List.mem_of_find?_eq_some hf
        have := (List.mem_filter.mp hid).1
        exact h1 _ hmem id this
      · exact h1 q hq id hid
    · exact h2
  · constructor
    · intro p hp id hid
      simp only [List.mem_cons] at hp
      rcases hp with rfl | hp
      · exact h2 id hid
      · exact h1 p hp id hid
    · exact h2

theorem atLabel_fresh (st : St) (l : Name) (h : Fresh st) : Fresh (atLabel st l) := by
  obtain ⟨h1, h2⟩ := h
  unfold atLabel
  split
  · exact ⟨h1, h2⟩
  · split
    · exact ⟨fun p hp => h1 p (List.mem_filter.mp hp).1, h2⟩
    · exact ⟨fun p hp => h1 p (List.mem_filter.mp hp).1, h2⟩

theorem atGoto_nextId (st : St) (l : Name) : (atGoto st l).nextId = st.nextId := by
  unfold atGoto; split <;> rfl

theorem atLabel_nextId (st : St) (l : Name) : (atLabel st l).nextId = st.nextId := by
  unfold atLabel; split
  · rfl
  · split <;> rfl

mutual
theorem goStmt_fresh : ∀ (s : Stmt) (st : St), st.stack ≠ [] → Fresh st →
    Fresh (goStmt st s).1 ∧ st.nextId ≤ (goStmt st s).1.nextId
  | .decl v us, st, _, h => by
    simp only [goStmt]
    exact ⟨declareVar_fresh _ v 422 (useVars_fresh st us h), by simp [declareVar, useVars_nextId]⟩
  | .use vs, st, _, h => by simp only [goStmt]; exact ⟨useVars_fresh st vs h, by simp [useVars_nextId]⟩
  | .loop, st, _, h => ⟨h, Nat.le_refl _⟩
  | .goto l, st, _, h => by simp only [goStmt]; exact ⟨atGoto_fresh st l h, by simp [atGoto_nextId]⟩
  | .label l, st, _, h => by simp only [goStmt]; exact ⟨atLabel_fresh st l h, by simp [atLabel_nextId]⟩
  | .ifThen c t, st, hs, h => by
    simp only [goStmt]
    have := goStmt_fresh t (useVars st c).1 (by rw [useVars_stack]; exact hs) (useVars_fresh st c h)
    exact ⟨this.1, by have := this.2; rw [useVars_nextId] at this; exact this⟩
  | .ifElse c t e, st, hs, h => by
    simp only [goStmt]
    have h1 := goStmt_fresh t (useVars st c).1 (by rw [useVars_stack]; exact hs) (useVars_fresh st c h)
    obtain ⟨a, ha, _⟩ := goStmt_stack t (useVars st c).1 (by rw [useVars_stack]; exact hs)
    have h2 := goStmt_fresh e (goStmt (useVars st c).1 t).1 (by rw [ha]; exact addLast_ne_nil _ _) h1.1
    exact ⟨h2.1, by have a1 := h1.2; have a2 := h2.2; rw [useVars_nextId] at a1; exact Nat.le_trans a1 a2⟩
  | .block ss, st, hs, h => by
    simp only [goStmt]
    have hin : Fresh { st with stack := st.stack ++ [[]] } := by
      refine ⟨h.1, ?_⟩
      intro id hid
      exact h.2 id (by simpa [inScope] using hid)
    have h1 := goList_fresh ss { st with stack := st.stack ++ [[]] } (by simp) hin
    obtain ⟨a, ha⟩ := goList_stack ss { st with stack := st.stack ++ [[]] } (by simp)
    refine ⟨⟨h1.1.1, ?_⟩, h1.2⟩
    intro id hid
    have hstack : (goList { st with stack := st.stack ++ [[]] } ss).1.stack.dropLast = st.stack := by
      rw [ha]; exact dropLast_addLast_snoc _ _
    have : id ∈ inScope st := by simpa [inScope, hstack] using hid
    exact Nat.lt_of_lt_of_le (h.2 id this) h1.2
theorem goList_fresh : ∀ (ss : Stmts) (st : St), st.stack ≠ [] → Fresh st →
    Fresh (goList st ss).1 ∧ st.nextId ≤ (goList st ss).1.nextId
  | .nil, st, _, h => ⟨h, Nat.le_refl _⟩
  | .cons s ss, st, hs, h => by
    simp only [goList]
    have h1 := goStmt_fresh s st hs h
    obtain ⟨a, ha, _⟩ := goStmt_stack s st hs
    have h2 := goList_fresh ss (goStmt st s).1 (by rw [ha]; exact addLast_ne_nil _ _) h1.1
    exact ⟨h2.1, Nat.le_trans h1.2 h2.2⟩
end

/-! ### a pruned variable stays pruned until it is reported -/

theorem lookup_addLast (stk : List (List (Name × VarId))) (a : List (Name × VarId)) (v : Name) (id : VarId)
    (h : lookup stk v = some id) : lookup (addLast stk a) v = some id := by
  unfold lookup at *
  rw [flatten_addLast, List.find?_append]
  cases hf : stk.flatten.find? (fun p => p.1 == v) with
  | none => simp [hf] at h
  | some q => simpa [hf] using h

theorem lookup_snoc_nil (stk : List (List (Name × VarId))) (v : Name) : lookup (stk ++ [[]]) v = lookup stk v := by
  simp [lookup]

theorem atGoto_pruned (st : St) (l : Name) : (atGoto st l).pruned = st.pruned := by
  unfold atGoto; split <;> rfl

theorem atLabel_pruned_mono (st : St) (l : Name) (id : VarId) (h : id ∈ st.pruned) : id ∈ (atLabel st l).pruned := by
  unfold atLabel
  split
  · exact h
  · split
    · exact h
    · simp only [List.mem_append]; exact Or.inl h

theorem Rej_append_left {a b : List Code} (h : Rej a) : Rej (a ++ b) := by
  rcases h with h | h
  · exact Or.inl (by simp [h])
  · exact Or.inr (by simp [h])

theorem Rej_append_right {a b : List Code} (h : Rej b) : Rej (a ++ b) := by
  rcases h with h | h
  · exact Or.inl (by simp [h])
  · exact Or.inr (by simp [h])

mutual
theorem goStmt_persist (v : Name) (id : VarId) : ∀ (s : Stmt) (st : St), st.stack ≠ [] →
    lookup st.stack v = some id → id ∈ st.pruned → Rej (goStmt st s).2 ∨ id ∈ (goStmt st s).1.pruned
  | .decl w us, st, _, _, hp => by
    simp only [goStmt]
    by_cases hd : (declareVar (useVars st us).1 w 422).2.isEmpty = true
    · simp only [hd, if_true]
      rcases useVars_pruned st us id hp with h | h
      · exact Or.inl (Or.inl h)
      · exact Or.inr h
    · simp only [hd]
      left; right
      simp only [declareVar] at hd ⊢
      by_cases hc : (lookup (useVars st us).1.stack w).isSome = true
      · simp [hc]
      · simp [hc] at hd
  | .use vs, st, _, _, hp => by
    simp only [goStmt]
    rcases useVars_pruned st vs id hp with h | h
    · exact Or.inl (Or.inl h)
    · exact Or.inr h
  | .loop, st, _, _, hp => Or.inr hp
  | .goto l, st, _, _, hp => by simp only [goStmt]; exact Or.inr (by rw [atGoto_pruned]; exact hp)
  | .label l, st, _, _, hp => by simp only [goStmt]; exact Or.inr (atLabel_pruned_mono st l id hp)
  | .ifThen c t, st, hs, hl, hp => by
    simp only [goStmt]
    rcases useVars_pruned st c id hp with h | h
    · exact Or.inl (Rej_append_left (Or.inl h))
    · rcases goStmt_persist v id t (useVars st c).1 (by rw [useVars_stack]; exact hs) (by rw [useVars_stack]; exact hl) h with h2 | h2
      · exact Or.inl (Rej_append_right h2)
      · exact Or.inr h2
  | .ifElse c t e, st, hs, hl, hp => by
    simp only [goStmt]
    rcases useVars_pruned st c id hp with h | h
    · exact Or.inl (Rej_append_left (Rej_append_left (Or.inl h)))
    · have hs1 : (useVars st c).1.stack ≠ [] := by rw [useVars_stack]; exact hs
      have hl1 : lookup (useVars st c).1.stack v = some id := by rw [useVars_stack]; exact hl
      rcases goStmt_persist v id t (useVars st c).1 hs1 hl1 h with h2 | h2
      · exact Or.inl (Rej_append_left (Rej_append_right h2))
      · obtain ⟨a, ha, _⟩ := goStmt_stack t (useVars st c).1 hs1
        rcases goStmt_persist v id e (goStmt (useVars st c).1 t).1 (by rw [ha]; exact addLast_ne_nil _ _)
            (by rw [ha]; exact lookup_addLast _ _ _ _ hl1) h2 with h3 | h3
        · exact Or.inl (Rej_append_right h3)
        · exact Or.inr h3
  | .block ss, st, _, hl, hp => by
    simp only [goStmt]
    rcases goList_persist v id ss { st with stack := st.stack ++ [[]] } (by simp)
        (by simpa [lookup_snoc_nil] using hl) hp with h | h
    · exact Or.inl h
    · exact Or.inr h
theorem goList_persist (v : Name) (id : VarId) : ∀ (ss : Stmts) (st : St), st.stack ≠ [] →
    lookup st.stack v = some id → id ∈ st.pruned → Rej (goList st ss).2 ∨ id ∈ (goList st ss).1.pruned
  | .nil, st, _, _, hp => Or.inr hp
  | .cons s ss, st, hs, hl, hp => by
    simp only [goList]
    rcases goStmt_persist v id s st hs hl hp with h | h
    · exact Or.inl (Rej_append_left h)
    · obtain ⟨a, ha, _⟩ := goStmt_stack s st hs
      rcases goList_persist v id ss (goStmt st s).1 (by rw [ha]; exact addLast_ne_nil _ _)
          (by rw [ha]; exact lookup_addLast _ _ _ _ hl) h with h2 | h2
      · exact Or.inl (Rej_append_right h2)
      · exact Or.inr h2
end

/-! ### the theorem -/

def app : Stmts → Stmts → Stmts
  | .nil, b => b
  | .cons s a, b => .cons s (app a b)

theorem goList_app : ∀ (a b : Stmts) (st : St),
    goList st (app a b) = ((goList (goList st a).1 b).1, (goList st a).2 ++ (goList (goList st a).1 b).2)
  | .nil, b, st => by simp [app, goList]
  | .cons s a, b, st => by
    simp only [app, goList]
    rw [goList_app a b (goStmt st s).1]
    simp [List.append_assoc]

theorem lookup_push_new (stk : List (List (Name × VarId))) (v : Name) (id : VarId) (h : lookup stk v = none) :
    lookup (pushLayer stk (v, id)) v = some id := by
  unfold lookup at *
  rw [pushLayer_eq, flatten_addLast, List.find?_append]
  cases hf : stk.flatten.find? (fun p => p.1 == v) with
  | some q => simp [hf] at h
  | none => simp

theorem getLast_addLast (stk : List (List (Name × VarId))) (a : List (Name × VarId)) (h : stk ≠ []) :
    ∃ layer, stk.getLast? = some layer ∧ (addLast stk a).getLast? = some (layer ++ a) := by
  induction stk with
  | nil => exact absurd rfl h
  | cons l rest ih => cases rest with
    | nil => exact ⟨l, rfl, by simp [addLast]⟩
    | cons l' rest' =>
      obtain ⟨layer, h1, h2⟩ := ih (by simp)
      refine ⟨layer, by simpa [List.getLast?_cons_cons] using h1, ?_⟩
      simp only [addLast]
      cases hr : addLast (l' :: rest') a with
      | nil => exact absurd hr (addLast_ne_nil _ _)
      | cons x xs => rw [hr] at h2; simpa [List.getLast?_cons_cons] using h2

/-- if the label is pending with a set that does not contain `id`, and `id` is declared in the innermost layer,
    then the label statement prunes `id` -/
theorem atLabel_prunes (st : St) (l : Name) (I : List VarId) (layer : List (Name × VarId)) (v : Name) (id : VarId)
    (hp : pending st l = some I) (hl : st.stack.getLast? = some layer) (hmem : (v, id) ∈ layer) (hni : id ∉ I) :
    id ∈ (atLabel st l).pruned := by
  unfold atLabel
  simp only [pending] at hp
  cases hf : st.unresolved.find? (fun p => p.1 == l) with
  | none => simp [hf] at hp
  | some q =>
    obtain ⟨k, inter⟩ := q
    simp only [hf, Option.map_some, Option.some.injEq] at hp
    subst hp
    simp only [hl]
    by_cases hpr : id ∈ st.pruned
    · simp only [List.mem_append]; exact Or.inl hpr
    · simp only [List.mem_append, List.mem_filter, List.mem_map]
      right
      refine ⟨⟨(v, id), hmem, rfl⟩, ?_⟩
      simp [hni, hpr]

theorem pending_mem (st : St) (l : Name) (I : List VarId) (h : pending st l = some I) :
    ∃ p ∈ st.unresolved, p.2 = I := by
  simp only [pending] at h
  cases hf : st.unresolved.find? (fun p => p.1 == l) with
  | none => simp [hf] at h
  | some q =>
    simp only [hf, Option.map_some, Option.some.injEq] at h
    exact ⟨q, List.mem_of_find?_eq_some hf, h⟩

/-- **C05, skipped declarations are always reported.**  In any state in which a `goto l` is pending (its label not yet
    reached), for ANY statements `X`, `Y` not containing the label `l`, ANY statements `Z`, `W`, any initialiser and any
    further names used: if `v` is declared at this block level after the goto and before `l:`, and used after `l:`,
    the function is rejected — with E482 (a jump may skip the declaration), or with E422 if the declaration itself
    clashed with a visible variable. -/
theorem skip_detected (st : St) (hs : st.stack ≠ []) (hF : Fresh st) (l : Name) (I : List VarId)
    (hpend : pending st l = some I) (v : Name) (us vs : List Name) (X Y Z W : Stmts)
    (hX : noLabelL l X = true) (hY : noLabelL l Y = true) :
    Rej (goList st (app X (.cons (.decl v us) (app Y (.cons (.label l) (app Z (.cons (.use (v :: vs)) W))))))).2 := by
  -- X
  rw [goList_app]
  apply Rej_append_right
  obtain ⟨I1, hp1, hsub1⟩ := goList_pending l X st I hpend hX
  obtain ⟨hF1, _⟩ := goList_fresh X st hs hF
  obtain ⟨a1, ha1⟩ := goList_stack X st hs
  generalize goList st X = r1 at *
  obtain ⟨st1, _⟩ := r1
  simp only at hp1 hF1 ha1 ⊢
  have hs1 : st1.stack ≠ [] := by rw [ha1]; exact addLast_ne_nil _ _
  -- the declaration
  simp only [goList]
  by_cases hclash : (lookup (useVars st1 us).1.stack v).isSome = true
  · apply Rej_append_left
    right
    simp [goStmt, declareVar, hclash]
  · apply Rej_append_right
    have hnone : lookup (useVars st1 us).1.stack v = none := by
      cases h : lookup (useVars st1 us).1.stack v with
      | none => rfl
      | some _ => simp [h] at hclash
    -- the state after the declaration
    have hstate : (goStmt st1 (.decl v us)).1 = (declareVar (useVars st1 us).1 v 422).1 := by simp [goStmt]
    rw [hstate]
    have hid : ∀ id' ∈ I1, id' < st1.nextId := by
      obtain ⟨p, hpm, hpe⟩ := pending_mem st1 l I1 hp1
      intro id' h'; exact hF1.1 p hpm id' (by rw [hpe]; exact h')
    have hni : st1.nextId ∉ I1 := fun h => Nat.lt_irrefl _ (hid _ h)
    have hF2 : Fresh (declareVar (useVars st1 us).1 v 422).1 := declareVar_fresh _ _ _ (useVars_fresh st1 us hF1)
    have hp2 : pending (declareVar (useVars st1 us).1 v 422).1 l = some I1 := by
      rw [pending_congr (st := st1) (by simp [declareVar_unresolved, useVars_unresolved])]; exact hp1
    have hstk2 : (declareVar (useVars st1 us).1 v 422).1.stack = addLast st1.stack [(v, st1.nextId)] := by
      simp [declareVar, useVars_stack, useVars_nextId, pushLayer_eq]
    have hlk2 : lookup (declareVar (useVars st1 us).1 v 422).1.stack v = some st1.nextId := by
      have := lookup_push_new (useVars st1 us).1.stack v (useVars st1 us).1.nextId hnone
      simpa [declareVar, useVars_nextId] using this
    generalize (declareVar (useVars st1 us).1 v 422).1 = st2 at *
    have hs2 : st2.stack ≠ [] := by rw [hstk2]; exact addLast_ne_nil _ _
    -- Y
    rw [goList_app]
    apply Rej_append_right
    obtain ⟨I2, hp3, hsub2⟩ := goList_pending l Y st2 I1 hp2 hY
    obtain ⟨a2, ha2⟩ := goList_stack Y st2 hs2
    generalize goList st2 Y = r3 at *
    obtain ⟨st3, _⟩ := r3
    simp only at hp3 ha2 ⊢
    have hlk3 : lookup st3.stack v = some st1.nextId := by rw [ha2]; exact lookup_addLast _ _ _ _ hlk2
    have hs3 : st3.stack ≠ [] := by rw [ha2]; exact addLast_ne_nil _ _
    have hni3 : st1.nextId ∉ I2 := fun h => hni (hsub2 _ h)
    -- the innermost layer still holds the declaration
    obtain ⟨layer1, hl1, hl1'⟩ := getLast_addLast st1.stack [(v, st1.nextId)] hs1
    obtain ⟨layer2, hl2, hl2'⟩ := getLast_addLast st2.stack a2 hs2
    have hlayer : st3.stack.getLast? = some (layer1 ++ [(v, st1.nextId)] ++ a2) := by
      rw [ha2, hl2']
      rw [hstk2, hl1'] at hl2
      simp only [Option.some.injEq] at hl2
      rw [← hl2]
    -- the label
    simp only [goList]
    apply Rej_append_right
    have hpruned := atLabel_prunes st3 l I2 _ v st1.nextId hp3 hlayer (by simp) hni3
    have hstate4 : (goStmt st3 (.label l)).1 = atLabel st3 l := by simp [goStmt]
    rw [hstate4]
    have hlk4 : lookup (atLabel st3 l).stack v = some st1.nextId := by rw [atLabel_stack]; exact hlk3
    have hs4 : (atLabel st3 l).stack ≠ [] := by rw [atLabel_stack]; exact hs3
    generalize atLabel st3 l = st4 at *
    -- Z, then the use
    rw [goList_app]
    rcases goList_persist v st1.nextId Z st4 hs4 hlk4 hpruned with hr | hr
    · exact Rej_append_left hr
    · apply Rej_append_right
      obtain ⟨a5, ha5⟩ := goList_stack Z st4 hs4
      have hlk5 : lookup (goList st4 Z).1.stack v = some st1.nextId := by rw [ha5]; exact lookup_addLast _ _ _ _ hlk4
      simp only [goList]
      apply Rej_append_left
      left
      simp only [goStmt, useVars]
      have := useVar_reports (goList st4 Z).1 v st1.nextId hlk5 hr
      simp [this]

/-- the hypotheses are met by the documented shape `goto l; var v; l: use v` at function level -/
example : Rej (goFunction [] [] (.cons (.goto 0) (.cons (.decl 1 []) (.cons (.label 0) (.cons (.use [1]) .nil))))) := by
  unfold Rej; decide

/-- ... and the theorem's own hypotheses by the state after a `goto` at function level -/
example : ∃ I, pending (atGoto { stack := [[], [], []], nextId := 1, unresolved := [], pruned := [], poisoned := [] } 0) 0 = some I ∧
    Fresh (atGoto { stack := [[], [], []], nextId := 1, unresolved := [], pruned := [], poisoned := [] } 0) :=
  ⟨[], by decide, atGoto_fresh _ 0 ⟨by simp, by simp [inScope]⟩⟩

end Vars
