/-
  The run-time semantics used for C05 (Scope/VarsDyn.lean) is the control-flow semantics of C01 (CF/Defs.lean: the one
  that is proved to agree with the lowering to a flow graph, and tied to the real LLVM IR by bisimulation) plus the
  tracking of initialised variables: on the statements both can express — actions, gotos, labels, `if`/`else`, blocks,
  blocks ending in `loop` — they take the same steps with the same fuel and leave the same oracle and flow.
-/
import PenneModel.Scope.VarsDyn
import PenneModel.CF.Scoped

namespace Vars
namespace Dyn
open CF (toSkel toSkelL)

def convFlow : CF.Flow → Flow
  | .next => .next
  | .jump l => .jump l

/-- what a run shows apart from the initialised names: `none` out of fuel, `some none` bad, else oracle and flow -/
def obs : Option Res → Option (Option (List Bool × Flow))
  | none => none
  | some .bad => some none
  | some (.ok _ o fl) => some (some (o, fl))

def obsCF (x : Option (List CF.Ev × List Bool × CF.Flow)) : Option (Option (List Bool × Flow)) :=
  x.map (fun r => some (r.2.1, convFlow r.2.2))

theorem dropToLabel_toSkelL (l : Nat) (lp : Bool) : ∀ (rest : CF.Stmts),
    dropToLabel l (toSkelL rest lp) = (CF.dropToLabel l rest).map (fun r => toSkelL r lp)
  | .nil => by cases lp <;> simp [toSkelL, dropToLabel, CF.dropToLabel]
  | .cons s rest => by
    have ih := dropToLabel_toSkelL l lp rest
    cases s with
    | label l' =>
      by_cases h : l' = l
      · simp [toSkelL, toSkel, dropToLabel, CF.dropToLabel, h]
      · simp [toSkelL, toSkel, dropToLabel, CF.dropToLabel, h, ih]
    | act a => simp [toSkelL, toSkel, dropToLabel, CF.dropToLabel, ih]
    | goto g => simp [toSkelL, toSkel, dropToLabel, CF.dropToLabel, ih]
    | ifThen c t => simp [toSkelL, toSkel, dropToLabel, CF.dropToLabel, ih]
    | ifElse c t e => simp [toSkelL, toSkel, dropToLabel, CF.dropToLabel, ih]
    | block id ss b => simp [toSkelL, toSkel, dropToLabel, CF.dropToLabel, ih]

def AgreeS (f : Nat) : Prop := ∀ (s : CF.Stmt) (outer top : List Name) (o : List Bool),
  obs (execS f outer top (toSkel s) o) = obsCF (CF.execS f s o)

def AgreeL (f : Nat) : Prop := ∀ (whole rest : CF.Stmts) (lp : Bool) (outer top : List Name) (o : List Bool),
  obs (execL f outer top (toSkelL whole lp) (toSkelL rest lp) o) = obsCF (CF.execL f whole rest lp o)

theorem obsCF_map (x : Option (List CF.Ev × List Bool × CF.Flow)) (g : List CF.Ev → List CF.Ev) :
    obsCF (x.map (fun r => (g r.1, r.2))) = obsCF x := by
  cases x with
  | none => rfl
  | some r => obtain ⟨a, b, c⟩ := r; rfl

/-- a statement of this fragment never changes `top`, and a block hides its own -/
theorem obs_block (top : List Name) (x : Option Res) :
    obs (match x with | none => none | some .bad => some .bad | some (.ok _ o' fl) => some (.ok top o' fl)) = obs x := by
  cases x with
  | none => rfl
  | some r => cases r <;> rfl

theorem agreeS_step (f : Nat) (ihS : AgreeS f) (ihL : AgreeL f) : AgreeS (f + 1) := by
  intro s outer top o
  cases s with
  | act a => simp [toSkel, execS, CF.execS, allInited, obs, obsCF, convFlow]
  | goto l => simp [toSkel, execS, CF.execS, obs, obsCF, convFlow]
  | label l => simp [toSkel, execS, CF.execS, obs, obsCF, convFlow]
  | ifThen c t =>
    simp only [toSkel, execS, CF.execS, allInited, List.all_nil, if_true]
    cases o with
    | nil => rfl
    | cons b o' =>
      cases b with
      | true => simp only [if_true]; rw [ihS t outer top o', obsCF_map]
      | false => simp [obs, obsCF, convFlow]
  | ifElse c t e =>
    simp only [toSkel, execS, CF.execS, allInited, List.all_nil, if_true]
    cases o with
    | nil => rfl
    | cons b o' =>
      cases b with
      | true => simp only [if_true]; rw [ihS t outer top o', obsCF_map]
      | false => simp only [Bool.false_eq_true, if_false]; rw [ihS e outer top o', obsCF_map]
  | block id ss lp =>
    simp only [toSkel, execS, CF.execS]
    have := ihL ss ss lp (outer ++ top) [] o
    generalize execL f (outer ++ top) [] (toSkelL ss lp) (toSkelL ss lp) o = x at this ⊢
    rw [← this]
    cases x with
    | none => rfl
    | some r => cases r <;> rfl

theorem agreeL_step (f : Nat) (ihS : AgreeS f) (ihL : AgreeL f) : AgreeL (f + 1) := by
  intro whole rest lp outer top o
  cases rest with
  | nil =>
    cases lp with
    | false => simp [toSkelL, execL, CF.execL, obs, obsCF, convFlow]
    | true =>
      simp only [toSkelL, if_true, execL, CF.execL]
      cases f with
      | zero => simp [execS, CF.execL, obs, obsCF]
      | succ f' =>
        simp only [execS]
        exact ihL whole whole true outer [] o
  | cons s rest' =>
    simp only [toSkelL, execL, CF.execL]
    have hs := ihS s outer top o
    cases hcf : CF.execS f s o with
    | none =>
      rw [hcf] at hs
      cases hd : execS f outer top (toSkel s) o with
      | none => simp [obs, obsCF]
      | some r => rw [hd] at hs; cases r <;> simp [obs, obsCF] at hs
    | some r =>
      obtain ⟨tr, o1, fl⟩ := r
      rw [hcf] at hs
      cases hd : execS f outer top (toSkel s) o with
      | none => rw [hd] at hs; simp [obs, obsCF] at hs
      | some r =>
        rw [hd] at hs
        cases r with
        | bad => simp [obs, obsCF] at hs
        | ok top1 o1' fl' =>
          simp only [obs, obsCF, Option.map_some, Option.some.injEq, Prod.mk.injEq] at hs
          obtain ⟨h1, h2⟩ := hs
          subst h1
          cases fl with
          | next =>
            simp only [convFlow] at h2; subst h2
            simp only
            rw [ihL whole rest' lp outer top1 o1', obsCF_map]
          | jump l =>
            simp only [convFlow] at h2; subst h2
            simp only
            rw [dropToLabel_toSkelL]
            cases hdl : CF.dropToLabel l rest' with
            | none => simp [obs, obsCF, convFlow]
            | some rest'' =>
              simp only [Option.map_some]
              rw [ihL whole rest'' lp outer top1 o1', obsCF_map]

/-- **the C05 run-time semantics and the C01 control-flow semantics are the same machine** on their common fragment:
    same fuel, same oracle consumption, same flow; and such a run is never `bad` (it mentions no variable) -/
theorem dyn_agrees_with_cf : ∀ f, AgreeS f ∧ AgreeL f
  | 0 => ⟨by intro s outer top o; simp [execS, CF.execS, obs, obsCF],
          by intro whole rest lp outer top o; simp [execL, CF.execL, obs, obsCF]⟩
  | f + 1 => ⟨agreeS_step f (dyn_agrees_with_cf f).1 (dyn_agrees_with_cf f).2,
              agreeL_step f (dyn_agrees_with_cf f).1 (dyn_agrees_with_cf f).2⟩

end Dyn
end Vars
