/-
  C05, soundness of the variable scoper with respect to executions (Scope/VarsDyn.lean).

  `accepted_runs_initialised`: if the scoper model raises nothing on a function (no E402, E482, E422, E424), the label
  scoper model raises nothing and branches are well placed, then NO run of the body — any oracle for the conditions,
  any number of steps, any number of loop rounds — ever reaches a statement that mentions a variable whose declaration
  has not been executed in the current activation of its block.

  The proof relates the one static pass to every run: at each program point reached by a run, the scoper's state at
  that point is `Good` for the run (every variable on the scoper's stack that is not pruned has been initialised, layer
  by layer).  A jump is justified by `SkipInv`: while the run skips statements up to the label, the pass keeps the label
  pending with a set of ids that are all older than the jump, so the label prunes every declaration that was skipped.
-/
import PenneModel.Scope.VarsDyn
import PenneModel.Scope.VarsTrace

namespace Vars
open Dyn

/-! ### well-placed branches (what E840 enforces) -/

def isBranch : Stmt → Bool
  | .goto _ => true
  | .block _ => true
  | _ => false

def isIf : Stmt → Bool
  | .ifThen _ _ => true
  | .ifElse _ _ _ => true
  | _ => false

mutual
def brOK : Stmt → Bool
  | .ifThen _ t => isBranch t && brOK t
  | .ifElse _ t e => isBranch t && brOK t && (isBranch e || isIf e) && brOK e
  | .block ss => brOKL ss
  | _ => true
def brOKL : Stmts → Bool
  | .nil => true
  | .cons s ss => brOK s && brOKL ss
end

/-! ### labels are well formed for the pass: a label that is pending when a block starts does not occur inside it -/

mutual
def LWF (st : St) : Stmt → Prop
  | .block ss => (∀ l, (pending st l).isSome = true → noLabelL l ss = true) ∧ LWFL { st with stack := st.stack ++ [[]] } ss
  | .ifThen c t => LWF (useVars st c).1 t
  | .ifElse c t e => LWF (useVars st c).1 t ∧ LWF (goStmt (useVars st c).1 t).1 e
  | _ => True
def LWFL (st : St) : Stmts → Prop
  | .nil => True
  | .cons s ss => LWF st s ∧ LWFL (goStmt st s).1 ss
end

/-! ### an accepted use leaves the state alone -/

theorem useVar_nil_state (st : St) (n : Name) (h : (useVar st n).2 = []) : (useVar st n).1 = st := by
  unfold useVar at *
  cases hl : lookup st.stack n with
  | none => simp [hl] at h
  | some id =>
    by_cases hp : id ∈ st.pruned
    · simp [hl, hp] at h
    · simp [hp]

theorem useVars_nil_state : ∀ (ns : List Name) (st : St), (useVars st ns).2 = [] → (useVars st ns).1 = st
  | [], _, _ => rfl
  | n :: ns, st, h => by
    simp only [useVars, List.append_eq_nil_iff] at h ⊢
    have h1 := useVar_nil_state st n h.1
    rw [h1] at h ⊢
    exact useVars_nil_state ns st h.2

theorem useVars_nil_each : ∀ (ns : List Name) (st : St), (useVars st ns).2 = [] → ∀ n ∈ ns, (useVar st n).2 = []
  | [], _, _, n, hn => by cases hn
  | m :: ns, st, h, n, hn => by
    simp only [useVars, List.append_eq_nil_iff] at h
    have h1 := useVar_nil_state st m h.1
    rw [h1] at h
    rcases List.mem_cons.mp hn with rfl | hn
    · exact h.1
    · exact useVars_nil_each ns st h.2 n hn

/-! ### the pruned set only grows while nothing is reported -/

mutual
theorem goStmt_pruned_mono : ∀ (s : Stmt) (st : St), (goStmt st s).2 = [] → ∀ id ∈ st.pruned, id ∈ (goStmt st s).1.pruned
  | .decl v us, st, h, id, hid => by
    simp only [goStmt] at h ⊢
    by_cases hd : (declareVar (useVars st us).1 v 422).2.isEmpty = true
    · simp only [hd, if_true] at h
      rw [useVars_nil_state us st h]
      exact hid
    · simp only [hd] at h
      exfalso; apply hd
      simp only [Bool.false_eq_true, if_false] at h
      simp [h]
  | .use vs, st, h, id, hid => by
    simp only [goStmt] at h ⊢
    rw [useVars_nil_state vs st h]; exact hid
  | .loop, _, _, _, hid => hid
  | .goto l, st, _, id, hid => by simp only [goStmt, atGoto_pruned]; exact hid
  | .label l, st, _, id, hid => by simp only [goStmt]; exact atLabel_pruned_mono st l id hid
  | .ifThen c t, st, h, id, hid => by
    simp only [goStmt, List.append_eq_nil_iff] at h ⊢
    have hc := useVars_nil_state c st h.1
    rw [hc] at h ⊢
    exact goStmt_pruned_mono t st h.2 id hid
  | .ifElse c t e, st, h, id, hid => by
    simp only [goStmt, List.append_eq_nil_iff] at h ⊢
    have hc := useVars_nil_state c st h.1.1
    rw [hc] at h ⊢
    exact goStmt_pruned_mono e _ h.2 id (goStmt_pruned_mono t st h.1.2 id hid)
  | .block ss, st, h, id, hid => by
    simp only [goStmt] at h ⊢
    exact goList_pruned_mono ss _ h id hid
theorem goList_pruned_mono : ∀ (ss : Stmts) (st : St), (goList st ss).2 = [] → ∀ id ∈ st.pruned, id ∈ (goList st ss).1.pruned
  | .nil, _, _, _, hid => hid
  | .cons s ss, st, h, id, hid => by
    simp only [goList, List.append_eq_nil_iff] at h ⊢
    exact goList_pruned_mono ss _ h.2 id (goStmt_pruned_mono s st h.1 id hid)
end

/-! ### what a statement adds to the innermost layer is new -/

theorem addLast_snoc (lower : List (List (Name × VarId))) (layer a : List (Name × VarId)) :
    addLast (lower ++ [layer]) a = lower ++ [layer ++ a] := by
  induction lower with
  | nil => simp [addLast]
  | cons l rest ih =>
    cases rest with
    | nil => simp [addLast]
    | cons l' rest' =>
      simp only [List.cons_append] at ih ⊢
      simp only [addLast]
      rw [ih]

mutual
theorem goStmt_new : ∀ (s : Stmt) (st : St), st.stack ≠ [] →
    ∃ a, (goStmt st s).1.stack = addLast st.stack a ∧ (∀ p ∈ a, st.nextId ≤ p.2) ∧ st.nextId ≤ (goStmt st s).1.nextId
  | .decl v us, st, _ => by
    refine ⟨[(v, (useVars st us).1.nextId)], ?_, ?_, ?_⟩
    · simp [goStmt, declareVar, pushLayer_eq, useVars_stack]
    · intro p hp
      simp only [List.mem_singleton] at hp
      subst hp
      simp [useVars_nextId]
    · simp [goStmt, declareVar, useVars_nextId]
  | .use vs, st, h => ⟨[], by simp [goStmt, useVars_stack, addLast_nil _ h], by simp, by simp [goStmt, useVars_nextId]⟩
  | .loop, st, h => ⟨[], by simp [goStmt, addLast_nil _ h], by simp, by simp [goStmt]⟩
  | .goto l, st, h => ⟨[], by simp [goStmt, atGoto_stack, addLast_nil _ h], by simp, by simp [goStmt, atGoto_nextId]⟩
  | .label l, st, h => ⟨[], by simp [goStmt, atLabel_stack, addLast_nil _ h], by simp, by simp [goStmt, atLabel_nextId]⟩
  | .ifThen c t, st, h => by
    obtain ⟨a, h1, h2, h3⟩ := goStmt_new t (useVars st c).1 (by rw [useVars_stack]; exact h)
    rw [useVars_stack] at h1
    rw [useVars_nextId] at h2 h3
    exact ⟨a, by simpa [goStmt] using h1, by simpa using h2, by simpa [goStmt] using h3⟩
  | .ifElse c t e, st, h => by
    obtain ⟨a, h1, h2, h3⟩ := goStmt_new t (useVars st c).1 (by rw [useVars_stack]; exact h)
    rw [useVars_stack] at h1
    rw [useVars_nextId] at h2 h3
    obtain ⟨b, g1, g2, g3⟩ := goStmt_new e (goStmt (useVars st c).1 t).1 (by rw [h1]; exact addLast_ne_nil _ _)
    refine ⟨a ++ b, ?_, ?_, ?_⟩
    · simp only [goStmt]
      rw [g1, h1, addLast_addLast _ h]
    · intro p hp
      rcases List.mem_append.mp hp with hp | hp
      · exact h2 p hp
      · exact Nat.le_trans h3 (g2 p hp)
    · simp only [goStmt]
      exact Nat.le_trans h3 g3
  | .block ss, st, h => by
    obtain ⟨a, h1, _, h3⟩ := goList_new ss { st with stack := st.stack ++ [[]] } (by simp)
    refine ⟨[], ?_, by simp, ?_⟩
    · simp only [goStmt]
      rw [h1]
      simp only [dropLast_addLast_snoc, addLast_nil _ h]
    · simpa [goStmt] using h3
theorem goList_new : ∀ (ss : Stmts) (st : St), st.stack ≠ [] →
    ∃ a, (goList st ss).1.stack = addLast st.stack a ∧ (∀ p ∈ a, st.nextId ≤ p.2) ∧ st.nextId ≤ (goList st ss).1.nextId
  | .nil, st, h => ⟨[], by simp [goList, addLast_nil _ h], by simp, by simp [goList]⟩
  | .cons s ss, st, h => by
    obtain ⟨a, h1, h2, h3⟩ := goStmt_new s st h
    obtain ⟨b, g1, g2, g3⟩ := goList_new ss (goStmt st s).1 (by rw [h1]; exact addLast_ne_nil _ _)
    refine ⟨a ++ b, ?_, ?_, ?_⟩
    · simp only [goList]
      rw [g1, h1, addLast_addLast _ h]
    · intro p hp
      rcases List.mem_append.mp hp with hp | hp
      · exact h2 p hp
      · exact Nat.le_trans h3 (g2 p hp)
    · simp only [goList]
      exact Nat.le_trans h3 g3
end


/-! ### the relation between the state of the pass at a program point and a run that is at that point -/

structure Good (st : St) (lower : List (List (Name × VarId))) (layer : List (Name × VarId)) (outer top : List Name) : Prop where
  stk : st.stack = lower ++ [layer]
  fresh : Fresh st
  lo : ∀ p ∈ lower.flatten, p.2 ∉ st.pruned → p.1 ∈ outer
  la : ∀ p ∈ layer, p.2 ∉ st.pruned → p.1 ∈ top

theorem Good.stack_ne {st lower layer outer top} (g : Good st lower layer outer top) : st.stack ≠ [] := by
  rw [g.stk]; simp

/-- the pass moved on (over code the run does not execute) without touching the stack -/
theorem Good.mono {st st' lower layer outer top} (g : Good st lower layer outer top) (hs : st'.stack = st.stack)
    (hf : Fresh st') (hp : ∀ id ∈ st.pruned, id ∈ st'.pruned) : Good st' lower layer outer top :=
  ⟨by rw [hs, g.stk], hf, fun p hp1 hp2 => g.lo p hp1 (fun h => hp2 (hp _ h)), fun p hp1 hp2 => g.la p hp1 (fun h => hp2 (hp _ h))⟩

theorem Good.inited {st lower layer outer top} (g : Good st lower layer outer top) (n : Name) (h : (useVar st n).2 = []) :
    inited outer top n = true := by
  obtain ⟨id, hl, hp⟩ := (use_ok_iff st n).mp h
  have hm := lookup_mem hl
  rw [g.stk] at hm
  simp only [List.flatten_append, List.flatten_cons, List.flatten_nil, List.append_nil, List.mem_append] at hm
  simp only [Dyn.inited, Bool.or_eq_true, List.contains_iff_mem]
  rcases hm with hm | hm
  · exact Or.inl (g.lo _ hm hp)
  · exact Or.inr (g.la _ hm hp)

theorem Good.allInited {st lower layer outer top} (g : Good st lower layer outer top) (ns : List Name)
    (h : (useVars st ns).2 = []) : allInited outer top ns = true := by
  simp only [Dyn.allInited, List.all_eq_true]
  intro n hn
  exact g.inited n (useVars_nil_each ns st h n hn)

/-! ### branches do not declare at the level of the `if` -/

theorem branch_stack : ∀ (s : Stmt) (st : St), st.stack ≠ [] → brOK s = true → (isBranch s || isIf s) = true →
    (goStmt st s).1.stack = st.stack
  | .goto l, st, _, _, _ => by simp [goStmt, atGoto_stack]
  | .block ss, st, h, _, _ => block_scoped ss st h
  | .ifThen c t, st, h, hb, _ => by
    simp only [brOK, Bool.and_eq_true] at hb
    simp only [goStmt]
    rw [branch_stack t _ (by rw [useVars_stack]; exact h) hb.2 (by simp [hb.1]), useVars_stack]
  | .ifElse c t e, st, h, hb, _ => by
    simp only [brOK, Bool.and_eq_true] at hb
    simp only [goStmt]
    have h1 := branch_stack t (useVars st c).1 (by rw [useVars_stack]; exact h) hb.1.1.2 (by simp [hb.1.1.1])
    rw [branch_stack e _ (by rw [h1, useVars_stack]; exact h) hb.2 hb.1.2, h1, useVars_stack]
  | .label _, _, _, _, hi => by simp [isBranch, isIf] at hi
  | .loop, _, _, _, hi => by simp [isBranch, isIf] at hi
  | .decl _ _, _, _, _, hi => by simp [isBranch, isIf] at hi
  | .use _, _, _, _, hi => by simp [isBranch, isIf] at hi

/-- the run did not take a branch: the pass goes over it, the relation stays -/
theorem Good.skip_branch {st lower layer outer top} (g : Good st lower layer outer top) (s : Stmt)
    (hc : (goStmt st s).2 = []) (hb : brOK s = true) (hi : (isBranch s || isIf s) = true) :
    Good (goStmt st s).1 lower layer outer top :=
  g.mono (branch_stack s st g.stack_ne hb hi) (goStmt_fresh s st g.stack_ne g.fresh).1 (goStmt_pruned_mono s st hc)

/-! ### a pending label and the labels of the code the pass goes over -/

theorem pending_useVars (st : St) (ns : List Name) (l : Name) : pending (useVars st ns).1 l = pending st l :=
  pending_congr (useVars_unresolved st ns) l

theorem lwf_noLabel (l : Name) : ∀ (s : Stmt) (st : St), brOK s = true → LWF st s → (pending st l).isSome = true →
    (∀ l', s = .label l' → l' ≠ l) → noLabel l s = true
  | .decl _ _, _, _, _, _, _ => rfl
  | .use _, _, _, _, _, _ => rfl
  | .loop, _, _, _, _, _ => rfl
  | .goto _, _, _, _, _, _ => rfl
  | .label l', _, _, _, _, hne => by simp [noLabel, hne l' rfl]
  | .block ss, st, _, hw, hp, _ => by
    simp only [LWF] at hw
    simp only [noLabel]
    exact hw.1 l hp
  | .ifThen c t, st, hb, hw, hp, _ => by
    simp only [brOK, Bool.and_eq_true] at hb
    simp only [LWF] at hw
    simp only [noLabel]
    exact lwf_noLabel l t _ hb.2 hw (by rw [pending_useVars]; exact hp)
      (by intro l' h; rw [h] at hb; simp [isBranch] at hb)
  | .ifElse c t e, st, hb, hw, hp, _ => by
    simp only [brOK, Bool.and_eq_true] at hb
    simp only [LWF] at hw
    simp only [noLabel, Bool.and_eq_true]
    have ht := lwf_noLabel l t _ hb.1.1.2 hw.1 (by rw [pending_useVars]; exact hp)
      (by intro l' h; rw [h] at hb; simp [isBranch] at hb)
    refine ⟨ht, ?_⟩
    have hp' : (pending (useVars st c).1 l).isSome = true := by rw [pending_useVars]; exact hp
    obtain ⟨I, hI⟩ := Option.isSome_iff_exists.mp hp'
    obtain ⟨I', hI', _⟩ := goStmt_pending l t _ I hI ht
    exact lwf_noLabel l e _ hb.2 hw.2 (by rw [hI']; rfl)
      (by intro l' h; rw [h] at hb; simp [isBranch, isIf] at hb)

theorem atGoto_pending_self (st : St) (l : Name) : (pending (atGoto st l) l).isSome = true := by
  unfold atGoto
  cases hf : st.unresolved.find? (fun p => p.1 == l) with
  | none => simp [pending, List.find?_cons]
  | some q =>
    obtain ⟨k, inter⟩ := q
    have hk := List.find?_some hf
    simp only [beq_iff_eq] at hk
    have hm := List.mem_of_find?_eq_some hf
    simp only [pending, Option.isSome_map, List.find?_isSome, List.mem_map]
    exact ⟨(l, inter.filter ((inScope st).contains ·)), ⟨(k, inter), hm, by simp [hk]⟩, by simp⟩

/-! ### while a run jumps over statements -/

/-- the pass state while the run is jumping to `l`: what was initialised when the jump started (`p.2 < N`) still is,
    everything the pass has put on the innermost layer since is newer than every id the label is waiting with -/
structure SkipInv (N : Nat) (st : St) (lower : List (List (Name × VarId))) (layer : List (Name × VarId))
    (outer top : List Name) (l : Name) : Prop where
  stk : st.stack = lower ++ [layer]
  fresh : Fresh st
  le : N ≤ st.nextId
  lo : ∀ p ∈ lower.flatten, p.2 ∉ st.pruned → p.1 ∈ outer
  la : ∀ p ∈ layer, p.2 ∉ st.pruned → p.2 < N → p.1 ∈ top
  pend : ∃ I, pending st l = some I ∧ ∀ id ∈ I, id < N

theorem Good.toSkip {st lower layer outer top} (g : Good st lower layer outer top) (l : Name)
    (hp : (pending st l).isSome = true) : SkipInv st.nextId st lower layer outer top l := by
  obtain ⟨I, hI⟩ := Option.isSome_iff_exists.mp hp
  refine ⟨g.stk, g.fresh, Nat.le_refl _, g.lo, fun p h1 h2 _ => g.la p h1 h2, I, hI, ?_⟩
  obtain ⟨q, hq, rfl⟩ := pending_mem st l I hI
  exact g.fresh.1 q hq

theorem SkipInv.stmt {N st lower layer outer top l} (k : SkipInv N st lower layer outer top l) (s : Stmt)
    (hc : (goStmt st s).2 = []) (hn : noLabel l s = true) :
    ∃ a, SkipInv N (goStmt st s).1 lower (layer ++ a) outer top l := by
  have hne : st.stack ≠ [] := by rw [k.stk]; simp
  obtain ⟨a, h1, h2, h3⟩ := goStmt_new s st hne
  obtain ⟨I, hI, hlt⟩ := k.pend
  obtain ⟨I', hI', hsub⟩ := goStmt_pending l s st I hI hn
  refine ⟨a, ?_, (goStmt_fresh s st hne k.fresh).1, Nat.le_trans k.le h3, ?_, ?_, I', hI', fun id hid => hlt id (hsub id hid)⟩
  · rw [h1, k.stk, addLast_snoc]
  · intro p hp1 hp2
    exact k.lo p hp1 (fun h => hp2 (goStmt_pruned_mono s st hc _ h))
  · intro p hp1 hp2 hp3
    rcases List.mem_append.mp hp1 with hp1 | hp1
    · exact k.la p hp1 (fun h => hp2 (goStmt_pruned_mono s st hc _ h)) hp3
    · exact absurd (Nat.le_trans k.le (h2 p hp1)) (Nat.not_le.mpr hp3)

/-- arriving at the label: every declaration the jump went over is pruned, so the relation holds again -/
theorem SkipInv.land {N st lower layer outer top l} (k : SkipInv N st lower layer outer top l) :
    Good (atLabel st l) lower layer outer top := by
  obtain ⟨I, hI, hlt⟩ := k.pend
  refine ⟨by rw [atLabel_stack, k.stk], atLabel_fresh st l k.fresh, ?_, ?_⟩
  · intro p hp1 hp2
    exact k.lo p hp1 (fun h => hp2 (atLabel_pruned_mono st l _ h))
  · intro p hp1 hp2
    by_cases hN : p.2 < N
    · exact k.la p hp1 (fun h => hp2 (atLabel_pruned_mono st l _ h)) hN
    · exfalso
      apply hp2
      have hlast : st.stack.getLast? = some layer := by rw [k.stk]; simp
      exact atLabel_prunes st l I layer p.1 p.2 hI hlast hp1 (fun h => hN (hlt _ h))

theorem SkipInv.list {N lower outer top l} : ∀ (ss : Stmts) (st : St) (layer : List (Name × VarId)),
    SkipInv N st lower layer outer top l → (goList st ss).2 = [] → noLabelL l ss = true →
    ∃ a, SkipInv N (goList st ss).1 lower (layer ++ a) outer top l
  | .nil, st, layer, k, _, _ => ⟨[], by simpa [goList] using k⟩
  | .cons s ss, st, layer, k, hc, hn => by
    simp only [goList, List.append_eq_nil_iff] at hc
    simp only [noLabelL, Bool.and_eq_true] at hn
    obtain ⟨a, ka⟩ := k.stmt s hc.1 hn.1
    obtain ⟨b, kb⟩ := SkipInv.list ss _ _ ka hc.2 hn.2
    exact ⟨a ++ b, by simpa [goList, List.append_assoc] using kb⟩


theorem dropToLabel_cons_ne (l : Name) (s : Stmt) (r : Stmts) (h : ∀ l', s = .label l' → l' ≠ l) :
    dropToLabel l (.cons s r) = dropToLabel l r := by
  cases s <;> simp only [dropToLabel]
  rename_i l'
  simp [h l' rfl]

/-- the run jumps to a label of this list: the pass, going over the statements in between, arrives at the label in a
    state that is `Good` for the run again, and goes on from there over exactly what the run executes next -/
theorem skip_to_label {N lower outer top l} : ∀ (rest : Stmts) (st : St) (layer : List (Name × VarId)) (rest'' : Stmts),
    SkipInv N st lower layer outer top l → (goList st rest).2 = [] → LWFL st rest → brOKL rest = true →
    dropToLabel l rest = some rest'' →
    ∃ st3 layer3, Good st3 lower layer3 outer top ∧ (goList st3 rest'').2 = [] ∧ LWFL st3 rest'' ∧ brOKL rest'' = true ∧
      (goList st3 rest'').1 = (goList st rest).1
  | .nil, _, _, _, _, _, _, _, hd => by simp [dropToLabel] at hd
  | .cons s r, st, layer, rest'', k, hc, hw, hb, hd => by
    simp only [goList, List.append_eq_nil_iff] at hc
    simp only [LWFL] at hw
    simp only [brOKL, Bool.and_eq_true] at hb
    by_cases hs : s = .label l
    · subst hs
      simp only [dropToLabel, if_true, Option.some.injEq] at hd
      subst hd
      exact ⟨atLabel st l, layer, k.land, by simpa [goStmt] using hc.2, by simpa [goStmt] using hw.2, hb.2, by simp [goList, goStmt]⟩
    · have hne : ∀ l', s = .label l' → l' ≠ l := fun l' h1 h2 => hs (h2 ▸ h1)
      rw [dropToLabel_cons_ne l s r hne] at hd
      obtain ⟨I, hI, _⟩ := k.pend
      have hn := lwf_noLabel l s st hb.1 hw.1 (by rw [hI]; rfl) hne
      obtain ⟨a, ka⟩ := k.stmt s hc.1 hn
      obtain ⟨st3, layer3, h1, h2, h3, h4, h5⟩ := skip_to_label r _ _ rest'' ka hc.2 hw.2 hb.2 hd
      exact ⟨st3, layer3, h1, h2, h3, h4, by simpa [goList] using h5⟩

/-- the label is not in this list: the run leaves the block, the label stays pending to the end of the list -/
theorem drop_none_pending (l : Name) : ∀ (rest : Stmts) (st : St), brOKL rest = true → LWFL st rest →
    (pending st l).isSome = true → dropToLabel l rest = none → (pending (goList st rest).1 l).isSome = true
  | .nil, _, _, _, hp, _ => hp
  | .cons s r, st, hb, hw, hp, hd => by
    simp only [LWFL] at hw
    simp only [brOKL, Bool.and_eq_true] at hb
    have hs : s ≠ .label l := by
      intro h; subst h; simp [dropToLabel] at hd
    have hne : ∀ l', s = .label l' → l' ≠ l := fun l' h1 h2 => hs (h2 ▸ h1)
    rw [dropToLabel_cons_ne l s r hne] at hd
    have hn := lwf_noLabel l s st hb.1 hw.1 hp hne
    obtain ⟨I, hI⟩ := Option.isSome_iff_exists.mp hp
    obtain ⟨I', hI', _⟩ := goStmt_pending l s st I hI hn
    simp only [goList]
    exact drop_none_pending l r _ hb.2 hw.2 (by rw [hI']; rfl) hd

/-! ### every run, against the one pass -/

def Post (st' : St) (lower : List (List (Name × VarId))) (outer : List Name) : Option Res → Prop
  | none => True
  | some .bad => False
  | some (.ok top' _ .next) => ∃ layer', Good st' lower layer' outer top'
  | some (.ok top' _ (.jump l)) => (∃ layer', Good st' lower layer' outer top') ∧ (pending st' l).isSome = true
  | some (.ok _ _ .again) => True

def PostL (stEnd : St) : Option Res → Prop
  | some .bad => False
  | some (.ok _ _ (.jump l)) => (pending stEnd l).isSome = true
  | _ => True

def SoundS (f : Nat) : Prop :=
  ∀ (s : Stmt) (st : St) (lower : List (List (Name × VarId))) (layer : List (Name × VarId)) (outer top : List Name) (o : List Bool),
    Good st lower layer outer top → (goStmt st s).2 = [] → LWF st s → brOK s = true →
    Post (goStmt st s).1 lower outer (execS f outer top s o)

def SoundL (f : Nat) : Prop :=
  ∀ (whole : Stmts) (st0 : St) (lower : List (List (Name × VarId))) (outer : List Name),
    Good st0 lower [] outer [] → (goList st0 whole).2 = [] → LWFL st0 whole → brOKL whole = true →
    ∀ (rest : Stmts) (st : St) (layer : List (Name × VarId)) (top : List Name) (o : List Bool),
      Good st lower layer outer top → (goList st rest).2 = [] → LWFL st rest → brOKL rest = true →
      (goList st rest).1 = (goList st0 whole).1 →
      PostL (goList st0 whole).1 (execL f outer top whole rest o)

theorem fresh_push (st : St) (h : Fresh st) : Fresh { st with stack := st.stack ++ [[]] } := by
  unfold Fresh inScope at *
  simpa using h

theorem soundS_step (f : Nat) (ihS : SoundS f) (ihL : SoundL f) : SoundS (f + 1) := by
  intro s st lower layer outer top o g hc hw hb
  cases s with
  | decl v us =>
    have hc' := hc
    simp only [goStmt] at hc'
    by_cases hd : (declareVar (useVars st us).1 v 422).2.isEmpty = true
    · simp only [hd, if_true] at hc'
      have hs := useVars_nil_state us st hc'
      have hin := g.allInited us hc'
      simp only [execS, hin, if_true, Post, goStmt]
      rw [hs]
      refine ⟨layer ++ [(v, st.nextId)], ?_, declareVar_fresh st v 422 g.fresh, ?_, ?_⟩
      · simp [declareVar, pushLayer_eq, g.stk, addLast_snoc]
      · intro p h1 h2; exact g.lo p h1 h2
      · intro p h1 h2
        rcases List.mem_append.mp h1 with h1 | h1
        · exact List.mem_append.mpr (Or.inl (g.la p h1 h2))
        · simp only [List.mem_singleton] at h1
          subst h1; simp
    · exfalso; apply hd
      simp only [hd, Bool.false_eq_true, if_false] at hc'
      simp [hc']
  | use vs =>
    have hc' := hc
    simp only [goStmt] at hc'
    have hs := useVars_nil_state vs st hc'
    have hin := g.allInited vs hc'
    simp only [execS, hin, if_true, Post, goStmt]
    rw [hs]
    exact ⟨layer, g⟩
  | goto l =>
    simp only [execS, Post, goStmt]
    exact ⟨⟨layer, g.mono (atGoto_stack st l) (atGoto_fresh st l g.fresh) (by rw [atGoto_pruned]; exact fun _ h => h)⟩,
      atGoto_pending_self st l⟩
  | label l =>
    simp only [execS, Post, goStmt]
    exact ⟨layer, g.mono (atLabel_stack st l) (atLabel_fresh st l g.fresh) (fun id h => atLabel_pruned_mono st l id h)⟩
  | loop => simp only [execS, Post]
  | ifThen c t =>
    have hc' := hc
    simp only [goStmt, List.append_eq_nil_iff] at hc'
    have hs := useVars_nil_state c st hc'.1
    have hin := g.allInited c hc'.1
    simp only [brOK, Bool.and_eq_true] at hb
    simp only [LWF] at hw
    rw [hs] at hc' hw
    have hst : (goStmt st (.ifThen c t)).1 = (goStmt st t).1 := by simp only [goStmt]; rw [hs]
    rw [hst]
    simp only [execS, hin, if_true]
    cases o with
    | nil => simp only [Post]
    | cons b o' =>
      cases b with
      | false =>
        simp only [Bool.false_eq_true, if_false, Post]
        exact ⟨layer, g.skip_branch t hc'.2 hb.2 (by simp [hb.1])⟩
      | true =>
        simp only [if_true]
        exact ihS t st lower layer outer top o' g hc'.2 hw hb.2
  | ifElse c t e =>
    have hc' := hc
    simp only [goStmt, List.append_eq_nil_iff] at hc'
    have hs := useVars_nil_state c st hc'.1.1
    have hin := g.allInited c hc'.1.1
    simp only [brOK, Bool.and_eq_true] at hb
    simp only [LWF] at hw
    rw [hs] at hc' hw
    have hst : (goStmt st (.ifElse c t e)).1 = (goStmt (goStmt st t).1 e).1 := by simp only [goStmt]; rw [hs]
    rw [hst]
    have hbt : (isBranch t || isIf t) = true := by simp [hb.1.1.1]
    simp only [execS, hin, if_true]
    cases o with
    | nil => simp only [Post]
    | cons b o' =>
      cases b with
      | true =>
        simp only [if_true]
        have h1 := ihS t st lower layer outer top o' g hc'.1.2 hw.1 hb.1.1.2
        generalize execS f outer top t o' = r at h1 ⊢
        match r, h1 with
        | none, _ => simp only [Post]
        | some .bad, h1 => exact h1.elim
        | some (.ok top' o2 .again), _ => simp only [Post]
        | some (.ok top' o2 .next), ⟨layer', g'⟩ =>
          exact ⟨layer', g'.skip_branch e hc'.2 hb.2 hb.1.2⟩
        | some (.ok top' o2 (.jump l)), ⟨⟨layer', g'⟩, hp⟩ =>
          refine ⟨⟨layer', g'.skip_branch e hc'.2 hb.2 hb.1.2⟩, ?_⟩
          have hn := lwf_noLabel l e _ hb.2 hw.2 hp (by intro l' h; rw [h] at hb; simp [isBranch, isIf] at hb)
          obtain ⟨I, hI⟩ := Option.isSome_iff_exists.mp hp
          obtain ⟨I', hI', _⟩ := goStmt_pending l e _ I hI hn
          rw [hI']; rfl
      | false =>
        simp only [Bool.false_eq_true, if_false]
        exact ihS e _ lower layer outer top o' (g.skip_branch t hc'.1.2 hb.1.1.2 hbt) hc'.2 hw.2 hb.2
  | block ss =>
    have hc' := hc
    simp only [goStmt] at hc'
    simp only [brOK] at hb
    simp only [LWF] at hw
    have gin : Good { st with stack := st.stack ++ [[]] } (lower ++ [layer]) [] (outer ++ top) [] := by
      refine ⟨by simp [g.stk], fresh_push st g.fresh, ?_, by simp⟩
      intro p h1 h2
      simp only [List.flatten_append, List.flatten_cons, List.flatten_nil, List.append_nil, List.mem_append] at h1 ⊢
      rcases h1 with h1 | h1
      · exact Or.inl (g.lo p h1 h2)
      · exact Or.inr (g.la p h1 h2)
    have h1 := ihL ss _ (lower ++ [layer]) (outer ++ top) gin hc' hw.2 hb ss _ [] [] o gin hc' hw.2 hb rfl
    have gout : Good (goStmt st (.block ss)).1 lower layer outer top :=
      g.mono (block_scoped ss st g.stack_ne) (goStmt_fresh (.block ss) st g.stack_ne g.fresh).1 (goStmt_pruned_mono (.block ss) st hc)
    have hpend : ∀ l, pending (goStmt st (.block ss)).1 l = pending (goList { st with stack := st.stack ++ [[]] } ss).1 l := by
      intro l; simp [goStmt, pending]
    simp only [execS]
    generalize execL f (outer ++ top) [] ss ss o = r at h1 ⊢
    match r, h1 with
    | none, _ => simp only [Post]
    | some .bad, h1 => exact h1.elim
    | some (.ok top' o2 .again), _ => simp only [Post]
    | some (.ok top' o2 .next), _ => exact ⟨layer, gout⟩
    | some (.ok top' o2 (.jump l)), h1 =>
      refine ⟨⟨layer, gout⟩, ?_⟩
      rw [hpend]; exact h1

theorem soundL_step (f : Nat) (ihS : SoundS f) (ihL : SoundL f) : SoundL (f + 1) := by
  intro whole st0 lower outer g0 hc0 hw0 hb0 rest st layer top o g hc hw hb hpos
  cases rest with
  | nil => simp only [execL, PostL]
  | cons s rest' =>
    simp only [goList, List.append_eq_nil_iff] at hc
    simp only [LWFL] at hw
    simp only [brOKL, Bool.and_eq_true] at hb
    have hpos' : (goList (goStmt st s).1 rest').1 = (goList st0 whole).1 := by simpa [goList] using hpos
    have h1 := ihS s st lower layer outer top o g hc.1 hw.1 hb.1
    simp only [execL]
    generalize execS f outer top s o = r at h1 ⊢
    match r, h1 with
    | none, _ => simp only [PostL]
    | some .bad, h1 => exact h1.elim
    | some (.ok top1 o1 .again), _ =>
      exact ihL whole st0 lower outer g0 hc0 hw0 hb0 whole st0 [] [] o1 g0 hc0 hw0 hb0 rfl
    | some (.ok top1 o1 .next), ⟨layer1, g1⟩ =>
      exact ihL whole st0 lower outer g0 hc0 hw0 hb0 rest' _ layer1 top1 o1 g1 hc.2 hw.2 hb.2 hpos'
    | some (.ok top1 o1 (.jump l)), ⟨⟨layer1, g1⟩, hp⟩ =>
      simp only
      cases hd : dropToLabel l rest' with
      | none =>
        simp only [PostL]
        rw [← hpos']
        exact drop_none_pending l rest' _ hb.2 hw.2 hp hd
      | some rest'' =>
        simp only
        obtain ⟨st3, layer3, g3, h2, h3, h4, h5⟩ := skip_to_label rest' _ layer1 rest'' (g1.toSkip l hp) hc.2 hw.2 hb.2 hd
        exact ihL whole st0 lower outer g0 hc0 hw0 hb0 rest'' st3 layer3 top1 o1 g3 h2 h3 h4 (h5.trans hpos')

theorem sound : ∀ f, SoundS f ∧ SoundL f
  | 0 => ⟨by intro s st lower layer outer top o _ _ _ _; simp only [execS, Post],
          by intro whole st0 lower outer _ _ _ _ rest st layer top o _ _ _ _ _; simp only [execL, PostL]⟩
  | f + 1 => ⟨soundS_step f (sound f).1 (sound f).2, soundL_step f (sound f).1 (sound f).2⟩

end Vars
