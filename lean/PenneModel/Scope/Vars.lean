import PenneModel.Skel
/-
  C05 — model of the statement-level part of `src/alpha/scoper/variable_references.rs`:
  the variable stack, duplicate detection, and the goto/label pruning that detects
  declarations which a forward jump may skip.

  Labels are keyed by name: on label-correct bodies (C04 accepted) a name identifies the
  label a goto resolves to until that label is reached (see DESIGN.md §4 C05).
-/

namespace Vars

abbrev VarId := Nat

structure St where
  /-- `variable_stack`: layer 0 constants, layer 1 parameters, then one layer per open block -/
  stack : List (List (Name × VarId))
  nextId : VarId
  /-- `unresolved_labels`: label ↦ intersection of the variables in scope at each goto so far -/
  unresolved : List (Name × List VarId)
  /-- `pruned_variables` (keys only) -/
  pruned : List VarId
  /-- `poisoned_variables` -/
  poisoned : List VarId
  deriving Repr

def lookup (stack : List (List (Name × VarId))) (n : Name) : Option VarId :=
  (stack.flatten.find? (fun p => p.1 == n)).map (·.2)

/-- `Analyzer::use_variable` (the code it raises, if any) -/
def useVar (st : St) (n : Name) : St × List Code :=
  match lookup st.stack n with
  | none => (st, [402])
  | some id =>
    if st.pruned.contains id then
      ({ st with pruned := st.pruned.erase id, poisoned := id :: st.poisoned }, [482])
    else (st, [])   -- resolved, or silently `Poison::Poisoned`

def useVars (st : St) : List Name → St × List Code
  | [] => (st, [])
  | n :: ns =>
    let r := useVar st n
    let r' := useVars r.1 ns
    (r'.1, r.2 ++ r'.2)

def pushLayer : List (List (Name × VarId)) → (Name × VarId) → List (List (Name × VarId))
  | [], p => [[p]]
  | [l], p => [l ++ [p]]
  | l :: ls, p => l :: pushLayer ls p

/-- `Analyzer::declare_variable`: duplicate when the name is anywhere on the stack; declared regardless -/
def declareVar (st : St) (n : Name) (dup : Code) : St × List Code :=
  let clash := (lookup st.stack n).isSome
  ({ st with stack := pushLayer st.stack (n, st.nextId), nextId := st.nextId + 1 },
   if clash then [dup] else [])

def inScope (st : St) : List VarId := st.stack.flatten.map (·.2)

/-- `prepare_to_prune_at_goto` -/
def atGoto (st : St) (l : Name) : St :=
  let scope := inScope st
  match st.unresolved.find? (fun p => p.1 == l) with
  | some (_, inter) =>
      { st with unresolved :=
          st.unresolved.map (fun p => if p.1 == l then (l, inter.filter (scope.contains ·)) else p) }
  | none => { st with unresolved := (l, scope) :: st.unresolved }

/-- `prune_at_label` -/
def atLabel (st : St) (l : Name) : St :=
  match st.unresolved.find? (fun p => p.1 == l) with
  | none => st
  | some (_, inter) =>
    let st1 := { st with unresolved := st.unresolved.filter (fun p => p.1 != l) }
    match st.stack.getLast? with
    | none => st1
    | some layer =>
      let newly := (layer.map (·.2)).filter (fun id => !inter.contains id && !st.pruned.contains id)
      { st1 with pruned := st1.pruned ++ newly }

mutual
def goStmt (st : St) : Stmt → St × List Code
  | .decl v uses =>
      -- the initialiser is analysed first; a duplicate declaration replaces the whole statement
      let r := useVars st uses
      let d := declareVar r.1 v 422
      (d.1, if d.2.isEmpty then r.2 else d.2)
  | .use vs => useVars st vs
  | .loop => (st, [])
  | .goto l => (atGoto st l, [])
  | .label l => (atLabel st l, [])
  | .ifThen c t =>
      let r := useVars st c
      let r1 := goStmt r.1 t
      (r1.1, r.2 ++ r1.2)
  | .ifElse c t e =>
      let r := useVars st c
      let r1 := goStmt r.1 t
      let r2 := goStmt r1.1 e
      (r2.1, r.2 ++ r1.2 ++ r2.2)
  | .block ss =>
      let r := goList { st with stack := st.stack ++ [[]] } ss
      ({ r.1 with stack := r.1.stack.dropLast }, r.2)
def goList (st : St) : Stmts → St × List Code
  | .nil => (st, [])
  | .cons s ss =>
      let r := goStmt st s
      let r' := goList r.1 ss
      (r'.1, r.2 ++ r'.2)
end

def declareAll (st : St) (dup : Code) : List Name → St × List Code
  | [] => (st, [])
  | n :: ns =>
    let r := declareVar st n dup
    let r' := declareAll r.1 dup ns
    (r'.1, r.2 ++ r'.2)

/-- one function: constants already in layer 0; parameters in a fresh layer, the body in another -/
def goFunction (consts params : List Name) (body : Stmts) : List Code :=
  let st0 : St := { stack := [[]], nextId := 1, unresolved := [], pruned := [], poisoned := [] }
  let c := declareAll st0 0 consts       -- constants (duplicates are not the subject here)
  let p := declareAll { c.1 with stack := c.1.stack ++ [[]] } 424 params
  let b := goList { p.1 with stack := p.1.stack ++ [[]] } body
  p.2 ++ b.2

end Vars
