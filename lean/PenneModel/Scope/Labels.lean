import PenneModel.Skel
/-
  C04 — model of `src/alpha/scoper/label_references.rs`, and an independent
  forward (positional) specification of label visibility.

  Stack = `Analyzer::label_stack`: one list of declared label names per open
  scope, outermost first; the last entry is the innermost scope.
-/

namespace Labels

abbrev Stack := List (List Name)

/-- `scope.iter().find(|x| x.name == name)` over all scopes of the stack. -/
def visible (stk : Stack) (n : Name) : Bool := stk.any (fun sc => sc.contains n)

/-- `if let Some(scope) = label_stack.last_mut() { scope.push(..) } else { label_stack.push(vec![..]) }` -/
def pushLast : Stack → Name → Stack
  | [], n => [[n]]
  | [sc], n => [sc ++ [n]]
  | sc :: rest, n => sc :: pushLast rest n

/-- `Analyzer::declare_label`: E420 when the name is found anywhere in the stack; declared regardless. -/
def declareLabel (stk : Stack) (n : Name) : Stack × List Code :=
  (pushLast stk n, if visible stk n then [420] else [])

/-- `Analyzer::use_label`: E400 when the name is nowhere in the stack. -/
def useLabel (stk : Stack) (n : Name) : List Code :=
  if visible stk n then [] else [400]

/-- `label_stack.pop()` -/
def popScope (stk : Stack) : Stack := stk.dropLast

mutual
/-- `impl Analyzable for Statement` — returns the new stack and the codes raised, in source order. -/
def goStmt (stk : Stack) : Stmt → Stack × List Code
  | .label n => declareLabel stk n
  | .goto n => (stk, useLabel stk n)
  | .loop => (stk, [])
  | .decl _ _ => (stk, [])
  | .use _ => (stk, [])
  | .ifThen _ t => goStmt stk t
  | .ifElse _ t e =>
      let r1 := goStmt stk t
      let r2 := goStmt r1.1 e
      (r2.1, r1.2 ++ r2.2)
  | .block ss =>
      -- push_scope(); statements.rev().map(analyze); pop_scope()
      let r := goBlock (stk ++ [[]]) ss
      (popScope r.1, r.2)
/-- the statements of a block are analysed last-to-first: the tail before the head. -/
def goBlock (stk : Stack) : Stmts → Stack × List Code
  | .nil => (stk, [])
  | .cons s ss =>
      let r1 := goBlock stk ss
      let r2 := goStmt r1.1 s
      (r2.1, r2.2 ++ r1.2)
end

/-- `impl Analyzable for FunctionBody`: starts from the analyzer's stack (empty between functions). -/
def goBody (ss : Stmts) : List Code := (goBlock [[]] ss).2

/-! ### Specification: forward, positional -/

/-- extend the innermost scope -/
def addLast : Stack → List Name → Stack
  | [], ns => [ns]
  | [sc], ns => [sc ++ ns]
  | sc :: rest, ns => sc :: addLast rest ns

/-- label names that a statement contributes to the block it is a direct statement of
    (a label, or a label written as the naked branch of an `if`) -/
def declared : Stmt → List Name
  | .label n => [n]
  | .ifThen _ t => declared t
  | .ifElse _ t e => declared t ++ declared e
  | _ => []

/-- labels contributed by a statement list, latest statement first -/
def declaredS : Stmts → List Name
  | .nil => []
  | .cons s ss => declaredS ss ++ declared s

mutual
/-- `ctx`: for each enclosing block (outermost first, last = the block the statement is in) the
    labels located *after* the current statement. -/
def specStmt (ctx : Stack) : Stmt → List Code
  | .goto n => if visible ctx n then [] else [400]
  | .label n => if visible ctx n then [420] else []
  | .ifThen _ t => specStmt ctx t
  | .ifElse _ t e => specStmt ctx t ++ specStmt (addLast ctx (declared t)) e
  | .block ss => specBlock (ctx ++ [[]]) ss
  | _ => []
def specBlock (ctx : Stack) : Stmts → List Code
  | .nil => []
  | .cons s ss => specStmt (addLast ctx (declaredS ss)) s ++ specBlock ctx ss
end

def specBody (ss : Stmts) : List Code := specBlock [[]] ss

end Labels
