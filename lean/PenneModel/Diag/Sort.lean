/-
  C13 — `Errors::sorted` (src/alpha/error.rs): a stable sort by the comparison key of the primary location,
  `(source_filename, line_number, line_offset)`.
-/
namespace Diag

structure Diagnostic where
  code : Nat
  file : Nat          -- file names, ordered like the strings they stand for
  line : Nat
  col : Nat
  deriving DecidableEq, Repr

/-- `Location::comparison_key` compared lexicographically -/
def keyLe (a b : Diagnostic) : Bool :=
  a.file < b.file || (a.file == b.file && (a.line < b.line || (a.line == b.line && a.col ≤ b.col)))

/-- `sort_by` is a stable merge sort -/
def sorted (ds : List Diagnostic) : List Diagnostic := ds.mergeSort keyLe

/-- known exceptions to "every emitted code is documented" (finding F8, known-findings.json) -/
def knownUndocumented : List Nat := []     -- F8 repaired: the eight codes now have sections in docs/errors.md

end Diag
