/-
  The lexer model is total: one step of `lex_line`'s loop on a non-empty rest either finds a comment or leaves a strictly
  shorter rest (`lexStep_progress`), so the fuel `lexLine` supplies (the length of the line plus one) is never exhausted:
  with any larger fuel the result is the same (`lexLineAux_fuel`).  No input makes the model stop early for lack of fuel.
-/
import PenneModel.Lex.Lemmas

namespace Lex

theorem takeHex2_le (cs : List Char) : (takeHex2 cs).2.length ≤ cs.length := by
  unfold takeHex2
  split
  · split
    · split <;> simp <;> omega
    · simp
  · split <;> simp
  · simp

theorem spanHex_le (cs : List Char) : (spanHex cs).2.length ≤ cs.length := by
  induction cs with
  | nil => simp [spanHex]
  | cons c cs ih =>
    unfold spanHex
    split
    · simp; omega
    · simp

set_option maxHeartbeats 2000000 in
theorem lexQuote_rest_le (quote : Char) (fuel : Nat) (cs : List Char) (q : QSt) :
    (lexQuote quote fuel cs q).2.length ≤ cs.length := by
  fun_induction lexQuote quote fuel cs q <;> (try simp) <;> (try omega)
  all_goals (first | grind [takeHex2_le, spanHex_le] | skip)

theorem spanIdent_snd_le (cs : List Char) : (spanIdent cs).2.length ≤ cs.length := by
  have := spanIdent_length cs; omega

/-- **progress**: a step on a non-empty rest of a line finds a comment or leaves a strictly shorter rest -/
theorem lexStep_progress (ln col off : Nat) (x : Char) (cs : List Char) (toks : List LTok) (rest : List Char)
    (h : lexStep ln col off (x :: cs) = some (toks, rest)) : rest.length ≤ cs.length := by
  unfold lexStep at h
  simp only at h
  split at h
  · simp only [Option.some.injEq, Prod.mk.injEq] at h; rw [← h.2]; exact Nat.le_refl _
  · split at h
    · cases h
    · split at h
      · -- punctuation
        split at h
        · split at h
          · simp only [Option.some.injEq, Prod.mk.injEq] at h; rw [← h.2]; simp
          · simp only [Option.some.injEq, Prod.mk.injEq] at h; rw [← h.2]; simp
        · simp only [Option.some.injEq, Prod.mk.injEq] at h; rw [← h.2]; simp
      · split at h
        · -- identifier, keyword, builtin
          have hs := spanIdent_snd_le cs
          split at h
          · simp only [Option.some.injEq, Prod.mk.injEq] at h; rw [← h.2]; exact hs
          · split at h
            · rename_i rest' heq
              simp only [Option.some.injEq, Prod.mk.injEq] at h
              rw [← h.2]
              rw [heq] at hs
              simp only [List.length_cons] at hs
              omega
            · simp only [Option.some.injEq, Prod.mk.injEq] at h; rw [← h.2]; exact hs
        · split at h
          · simp only [Option.some.injEq, Prod.mk.injEq] at h; rw [← h.2]; simp
          · split at h
            · simp only [Option.some.injEq, Prod.mk.injEq] at h; rw [← h.2]; simp
            · split at h
              · -- quotes
                have hq := lexQuote_rest_le x cs.length cs { stop := off + 1, eol := col + 1, idx := col + 1 }
                revert h
                generalize lexQuote x cs.length cs { stop := off + 1, eol := col + 1, idx := col + 1 } = r at hq
                obtain ⟨q, rest0⟩ := r
                intro h
                simp only at h hq
                split at h
                · simp only [Option.some.injEq, Prod.mk.injEq] at h; rw [← h.2]; exact hq
                · simp only [Option.some.injEq, Prod.mk.injEq] at h; rw [← h.2]; exact hq
              · simp only [Option.some.injEq, Prod.mk.injEq] at h; rw [← h.2]; exact Nat.le_refl _

theorem lexLineAux_fuel_aux (ln : Nat) : ∀ (n : Nat) (cs : List Char), cs.length = n → ∀ (fuel col off : Nat), cs.length < fuel →
    lexLineAux ln fuel col off cs = lexLineAux ln (cs.length + 1) col off cs := by
  intro n
  induction n using Nat.strongRecOn with
  | _ n ih =>
    intro cs hn fuel col off hf
    cases cs with
    | nil =>
      cases fuel with
      | zero => simp at hf
      | succ f => simp [lexLineAux]
    | cons x cs =>
      obtain ⟨f, rfl⟩ : ∃ f, fuel = f + 1 := ⟨fuel - 1, by omega⟩
      simp only [List.length_cons] at hf hn ⊢
      simp only [lexLineAux]
      cases hs : lexStep ln col off (x :: cs) with
      | none => rfl
      | some r =>
        obtain ⟨toks, rest⟩ := r
        have hp := lexStep_progress ln col off x cs toks rest hs
        simp only
        have h1 := ih rest.length (by omega) rest rfl f (col + ((x :: cs).length - rest.length)) (off + ((x :: cs).length - rest.length)) (by omega)
        have h2 := ih rest.length (by omega) rest rfl (cs.length + 1) (col + ((x :: cs).length - rest.length))
          (off + ((x :: cs).length - rest.length)) (by omega)
        rw [h1, h2]

/-- **the fuel of `lex_line` is never exhausted**: more fuel gives the same tokens -/
theorem lexLineAux_fuel (ln : Nat) (cs : List Char) (fuel col off : Nat) (hf : cs.length < fuel) :
    lexLineAux ln fuel col off cs = lexLineAux ln (cs.length + 1) col off cs :=
  lexLineAux_fuel_aux ln cs.length cs rfl fuel col off hf

/-- `lexLine` with any larger fuel is `lexLine` -/
theorem lexLine_total (ln off : Nat) (line : List Char) (fuel : Nat) (hf : line.length < fuel) :
    lexLineAux ln fuel 0 off line = lexLine ln off line := by
  unfold lexLine
  exact lexLineAux_fuel ln line fuel 0 off hf

end Lex
