/-
  Lexer model: `src/alpha/lexer.rs` arm by arm (char-based, line by line).  It doubles as the
  reference lexer for the second-generation byte lexer (`src/delta/lexer.rs`), see DESIGN.md §4 C14.
  No imports beyond core: part of the native driver.
-/

namespace Lex

inductive Ty where
  | void | i8 | i16 | i32 | i64 | i128 | u8 | u16 | u32 | u64 | u128 | usize | char8 | bool
  deriving DecidableEq, Repr, Inhabited

inductive Tok where
  | sym (s : List Char)                 -- punctuation, by its spelling
  | kw (s : List Char)                  -- keyword (incl. `_`), by its spelling
  | ty (t : Ty)
  | ident (s : List Char)
  | builtin (s : List Char)             -- without the `!`
  | dec (n : Nat)                       -- NakedDecimal
  | bit (n : Nat)                       -- BitInteger
  | suf (n : Nat) (t : Ty)              -- SuffixedInteger
  | chr (b : Nat)
  | bool (b : Bool)
  | str (bs : List Nat)
  | err (code : Nat)
  deriving DecidableEq, Repr, Inhabited

structure LTok where
  tok : Tok
  start : Nat
  stop : Nat
  line : Nat
  col : Nat
  deriving DecidableEq, Repr, Inhabited

def isDigit (c : Char) : Bool := '0' ≤ c && c ≤ '9'
def isHex (c : Char) : Bool := isDigit c || ('a' ≤ c && c ≤ 'f') || ('A' ≤ c && c ≤ 'F')
def isBin (c : Char) : Bool := c == '0' || c == '1'
def isIdentStart (c : Char) : Bool := ('a' ≤ c && c ≤ 'z') || ('A' ≤ c && c ≤ 'Z') || c == '_'
def isIdentCont (c : Char) : Bool := isIdentStart c || isDigit c
def isAsciiGraphic (c : Char) : Bool := '!' ≤ c && c ≤ '~'
def isAscii (c : Char) : Bool := c.toNat < 128

def hexVal (c : Char) : Nat :=
  if isDigit c then c.toNat - '0'.toNat
  else if 'a' ≤ c && c ≤ 'f' then c.toNat - 'a'.toNat + 10
  else c.toNat - 'A'.toNat + 10

def digitVal (c : Char) : Nat := c.toNat - '0'.toNat

/-- value of a digit string in a base (most significant first) -/
def valueOf (base : Nat) (ds : List Char) : Nat := ds.foldl (fun acc c => acc * base + hexVal c) 0

def max128 : Nat := 2 ^ 128

def keywords : List (List Char × Tok) := [
  ("fn".toList, .kw "fn".toList), ("var".toList, .kw "var".toList), ("const".toList, .kw "const".toList),
  ("if".toList, .kw "if".toList), ("goto".toList, .kw "goto".toList), ("loop".toList, .kw "loop".toList),
  ("else".toList, .kw "else".toList), ("cast".toList, .kw "cast".toList), ("as".toList, .kw "as".toList),
  ("true".toList, .bool true), ("false".toList, .bool false),
  ("void".toList, .ty .void), ("i8".toList, .ty .i8), ("i16".toList, .ty .i16), ("i32".toList, .ty .i32),
  ("i64".toList, .ty .i64), ("i128".toList, .ty .i128), ("u8".toList, .ty .u8), ("u16".toList, .ty .u16),
  ("u32".toList, .ty .u32), ("u64".toList, .ty .u64), ("u128".toList, .ty .u128), ("usize".toList, .ty .usize),
  ("char8".toList, .ty .char8), ("bool".toList, .ty .bool),
  ("import".toList, .kw "import".toList), ("pub".toList, .kw "pub".toList), ("extern".toList, .kw "extern".toList),
  ("struct".toList, .kw "struct".toList), ("word8".toList, .kw "word8".toList), ("word16".toList, .kw "word16".toList),
  ("word32".toList, .kw "word32".toList), ("word64".toList, .kw "word64".toList), ("word128".toList, .kw "word128".toList),
  ("_".toList, .kw "_".toList)]

def suffixes : List (List Char × Ty) := [
  ("i8".toList, .i8), ("i16".toList, .i16), ("i32".toList, .i32), ("i64".toList, .i64), ("i128".toList, .i128),
  ("u8".toList, .u8), ("u16".toList, .u16), ("u32".toList, .u32), ("u64".toList, .u64), ("u128".toList, .u128),
  ("usize".toList, .usize)]

def lookupKw (s : List Char) : Option Tok := (keywords.find? (fun p => p.1 == s)).map (·.2)
def parseSuffix (s : List Char) : Option Ty := (suffixes.find? (fun p => p.1 == s)).map (·.2)

/-- longest prefix of identifier-continuation characters, and the rest -/
def spanIdent : List Char → List Char × List Char
  | [] => ([], [])
  | c :: cs => if isIdentCont c then let r := spanIdent cs; (c :: r.1, r.2) else ([], c :: cs)

/-- digits of a class with `_` separators: (digits kept, characters consumed, rest) -/
def spanDigits (p : Char → Bool) : List Char → List Char × Nat × List Char
  | [] => ([], 0, [])
  | c :: cs =>
    if p c then let r := spanDigits p cs; (c :: r.1, r.2.1 + 1, r.2.2)
    else if c == '_' then let r := spanDigits p cs; (r.1, r.2.1 + 1, r.2.2)
    else ([], 0, c :: cs)

theorem spanIdent_length (cs : List Char) : (spanIdent cs).1.length + (spanIdent cs).2.length = cs.length := by
  induction cs with
  | nil => rfl
  | cons c cs ih => unfold spanIdent; split <;> simp_all <;> omega

theorem spanDigits_length (p) (cs : List Char) : (spanDigits p cs).2.1 + (spanDigits p cs).2.2.length = cs.length := by
  induction cs with
  | nil => rfl
  | cons c cs ih =>
    unfold spanDigits
    by_cases h1 : p c = true
    · simp only [h1, if_true]; simp; omega
    · by_cases h2 : (c == '_') = true
      · simp only [h1, h2, if_true]; simp; omega
      · simp [h1, h2]

/-- result of the `0` / `1..9` arms after the first character: token and number of characters consumed
    after the first -/
def lexNumberZero (rest : List Char) : Tok × Nat :=
  let finish (value : Option Nat) (literalEmpty : Bool) (pre : List Char) (used : Nat) (rest' : List Char) : Tok × Nat :=
    let sfx := spanIdent rest'
    let suffix := pre ++ sfx.1
    let n := used + sfx.1.length
    match value with
    | none => (.err 140, n)
    | some v =>
      if v == 0 && literalEmpty && suffix.isEmpty then (.dec 0, n)
      else if suffix.isEmpty then (.bit v, n)
      else match parseSuffix suffix with
        | some t => (.suf v t, n)
        | none => (.err 141, n)
  match rest with
  | 'x' :: cs =>
    let d := spanDigits isHex cs
    if d.1.isEmpty then finish (some 0) true ['x'] (1 + d.2.1) d.2.2
    else
      let v := valueOf 16 d.1
      finish (if v < max128 then some v else none) false [] (1 + d.2.1) d.2.2
  | 'b' :: cs =>
    let d := spanDigits isBin cs
    if d.1.isEmpty then finish (some 0) true ['b'] (1 + d.2.1) d.2.2
    else
      let v := valueOf 2 d.1
      finish (if v < max128 then some v else none) false [] (1 + d.2.1) d.2.2
  | _ => finish (some 0) true [] 0 rest

def lexNumberNonzero (first : Char) (rest : List Char) : Tok × Nat :=
  let d := spanDigits isDigit rest
  let sfx := spanIdent d.2.2
  let v := valueOf 10 (first :: d.1)
  let n := d.2.1 + sfx.1.length
  if v ≥ max128 then (.err 140, n)
  else if sfx.1.isEmpty then (.dec v, n)
  else match parseSuffix sfx.1 with
    | some t => (.suf v t, n)
    | none => (.err 141, n)

/-- UTF-8 encoding of a scalar value -/
def utf8 (n : Nat) : List Nat :=
  if n < 0x80 then [n]
  else if n < 0x800 then [0xC0 + n / 64, 0x80 + n % 64]
  else if n < 0x10000 then [0xE0 + n / 4096, 0x80 + (n / 64) % 64, 0x80 + n % 64]
  else [0xF0 + n / 262144, 0x80 + (n / 4096) % 64, 0x80 + (n / 64) % 64, 0x80 + n % 64]

def isScalar (n : Nat) : Bool := n < 0xD800 || (0xE000 ≤ n && n < 0x110000)

/-- state of the quote loop -/
structure QSt where
  bytes : List Nat := []         -- reversed
  stop : Nat                     -- source_offset_end
  eol : Nat                      -- end_of_line_offset
  idx : Nat                      -- line offset of the next character
  firstErr : Option (Nat × Nat × Nat × Nat) := none   -- code, span start, span stop, col
  closed : Bool := false

def QSt.fail (q : QSt) (code start : Nat) : QSt :=
  match q.firstErr with
  | some _ => q
  | none => { q with firstErr := some (code, start, q.stop, q.eol) }

/-- up to two hex digits for `\x` -/
def takeHex2 : List Char → List Char × List Char
  | a :: b :: cs => if isHex a then (if isHex b then ([a, b], cs) else ([a], b :: cs)) else ([], a :: b :: cs)
  | [a] => if isHex a then ([a], []) else ([], [a])
  | [] => ([], [])

def spanHex : List Char → List Char × List Char
  | [] => ([], [])
  | c :: cs => if isHex c then let r := spanHex cs; (c :: r.1, r.2) else ([], c :: cs)

/-- the body of the quote loop; fuel = remaining characters -/
def lexQuote (quote : Char) : Nat → List Char → QSt → QSt × List Char
  | 0, cs, q => (q, cs)
  | _, [], q => (q, [])
  | fuel + 1, x :: cs, q =>
    let startOfChar := q.stop
    let q := { q with stop := q.stop + 1, eol := q.idx + 1, idx := q.idx + 1 }
    if x == '\\' then
      let q := { q with stop := q.stop + 1 }
      match cs with
      | [] => ({ q with stop := q.stop - 1 }.fail 161 startOfChar, [])     -- no character follows the backslash
      | y :: cs' =>
        let q := { q with idx := q.idx + 1 }
        let simple (b : Nat) := lexQuote quote fuel cs' { q with bytes := b :: q.bytes }
        if y == 'n' then simple 10 else if y == 'r' then simple 13 else if y == 't' then simple 9
        else if y == '\\' then simple 92 else if y == '\'' then simple 39 else if y == '"' then simple 34
        else if y == '0' then simple 0
        else if y == 'x' then
          let h := takeHex2 cs'
          let q := { q with stop := q.stop + h.1.length, idx := q.idx + h.1.length }
          if h.1.length == 2 then lexQuote quote fuel h.2 { q with bytes := valueOf 16 h.1 :: q.bytes }
          else lexQuote quote fuel h.2 (q.fail 162 startOfChar)
        else if y == 'u' then
          match cs' with
          | '{' :: cs'' =>
            let h := spanHex cs''
            match h.2 with
            | '}' :: rest =>
              let q := { q with stop := q.stop + 1 + h.1.length + 1, idx := q.idx + 1 + h.1.length + 1 }
              let v := valueOf 16 h.1
              if quote == '"' && !h.1.isEmpty && h.1.length ≤ 6 && isScalar v then
                lexQuote quote fuel rest { q with bytes := (utf8 v).reverse ++ q.bytes }
              else lexQuote quote fuel rest (q.fail 162 startOfChar)
            | rest =>
              let q := { q with stop := q.stop + 1 + h.1.length, idx := q.idx + 1 + h.1.length }
              lexQuote quote fuel rest (q.fail 162 startOfChar)
          | _ => lexQuote quote fuel cs' (q.fail 162 startOfChar)
        else lexQuote quote fuel cs' (q.fail 162 startOfChar)
    else if x == quote then ({ q with closed := true }, cs)
    else if x == ' ' then lexQuote quote fuel cs { q with bytes := 32 :: q.bytes }
    else if isAsciiGraphic x then lexQuote quote fuel cs { q with bytes := x.toNat :: q.bytes }
    else if isAscii x then lexQuote quote fuel cs (q.fail 110 startOfChar)
    else lexQuote quote fuel cs { q with bytes := (utf8 x.toNat).reverse ++ q.bytes }

def sym2 (a b : Char) : Option Tok :=
  if (a == '<' && b == '<') || (a == '<' && b == '=') || (a == '>' && b == '>') || (a == '>' && b == '=')
     || (a == '|' && b == ':') || (a == '!' && b == '=') || (a == '.' && b == '.') || (a == '=' && b == '=')
     || (a == '-' && b == '>') then some (.sym [a, b]) else none

def isSym1 (c : Char) : Bool :=
  "(){}[]<>|&^!+*%:;.,=-/".toList.contains c

/-- One iteration of `lex_line`'s loop at line offset `col`, source offset `off`:
    `none` = rest of line is a comment; otherwise the tokens pushed (0 or 1) and the rest. -/
def lexStep (lineNo col off : Nat) : List Char → Option (List LTok × List Char)
  | [] => some ([], [])
  | x :: cs =>
    let mk (t : Tok) (len : Nat) (rest : List Char) : Option (List LTok × List Char) :=
      some ([{ tok := t, start := off, stop := off + len, line := lineNo, col := col }], rest)
    if x == ' ' || x == '\t' then some ([], cs)
    else if x == '/' && cs.head? == some '/' then none
    else if isSym1 x then
      match cs with
      | y :: cs' => match sym2 x y with
        | some t => mk t 2 cs'
        | none => mk (.sym [x]) 1 cs
      | [] => mk (.sym [x]) 1 cs
    else if isIdentStart x then
      let r := spanIdent cs
      let id := x :: r.1
      match lookupKw id with
      | some t => mk t id.length r.2
      | none => match r.2 with
        | '!' :: rest => mk (.builtin id) (id.length + 1) rest
        | _ => mk (.ident id) id.length r.2
    else if x == '0' then
      let r := lexNumberZero cs
      mk r.1 (1 + r.2) (cs.drop r.2)
    else if isDigit x then
      let r := lexNumberNonzero x cs
      mk r.1 (1 + r.2) (cs.drop r.2)
    else if x == '"' || x == '\'' then
      let (q, rest) := lexQuote x cs.length cs { stop := off + 1, eol := col + 1, idx := col + 1 }
      let q := if q.closed then q else q.fail 160 off
      match q.firstErr with
      | some (code, s, e, c) =>
        some ([{ tok := .err code, start := s, stop := e, line := lineNo, col := c }], rest)
      | none =>
        let tok := if x == '"' then Tok.str q.bytes.reverse
                   else match q.bytes with
                     | [b] => Tok.chr b
                     | _ => Tok.err 163
        some ([{ tok := tok, start := off, stop := q.stop, line := lineNo, col := col }], rest)
    else mk (.err 110) 1 cs

/-- `lex_line`; fuel = line length + 1 -/
def lexLineAux (lineNo : Nat) : Nat → Nat → Nat → List Char → List LTok
  | 0, _, _, _ => []
  | _, _, _, [] => []
  | fuel + 1, col, off, cs =>
    match lexStep lineNo col off cs with
    | none => []
    | some (toks, rest) =>
      let used := cs.length - rest.length
      toks ++ lexLineAux lineNo fuel (col + used) (off + used) rest

def lexLine (lineNo off : Nat) (line : List Char) : List LTok :=
  lexLineAux lineNo (line.length + 1) 0 off line

/-- `str::lines()`: split at `\n`; a `\r` immediately before the `\n` is dropped; no empty last line.
    Each line comes with the length of its line ending (2 for `\r\n`, else 1). -/
def splitLines : List Char → List Char → List (List Char × Nat)
  | [], [] => []
  | [], acc => [(acc.reverse, 1)]
  | '\n' :: cs, acc =>
      (match acc with | '\r' :: a => (a.reverse, 2) | a => (a.reverse, 1)) :: splitLines cs []
  | c :: cs, acc => splitLines cs (c :: acc)

def lexLines : Nat → Nat → List (List Char × Nat) → List LTok
  | _, _, [] => []
  | lineNo, off, (l, ending) :: ls => lexLine lineNo off l ++ lexLines (lineNo + 1) (off + l.length + ending) ls

/-- `lexer::lex` -/
def lex (src : List Char) : List LTok :=
  if src.isEmpty then [{ tok := .err 101, start := 0, stop := 0, line := 1, col := 1 }]
  else lexLines 1 0 (splitLines src [])

end Lex
