/-
  String and character literals with escapes: every item the fuzzer can put between the quotes
  (a printable character, a simple escape, `\xHH`, `\u{…}`, a raw non-ASCII character) is read by the quote loop
  without raising an error, whatever follows.  `closedLex_string`, `closedLex_char`.
-/
import PenneModel.Lex.Safe

namespace Lex

/-- one item between the quotes: its spelling and the bytes it stands for -/
inductive QItem (quote : Char) : List Char → List Nat → Prop
  | plain (c : Char) : plainFor quote c = true → QItem quote [c] [c.toNat]
  | esc (y : Char) (b : Nat) : (y, b) ∈ [('n', 10), ('r', 13), ('t', 9), ('\\', 92), ('\'', 39), ('"', 34), ('0', 0)] →
      QItem quote ['\\', y] [b]
  | hex2 (a b : Char) : isHex a = true → isHex b = true → QItem quote ['\\', 'x', a, b] [valueOf 16 [a, b]]
  | uni (hs : List Char) : quote = '"' → hs ≠ [] → hs.length ≤ 6 → (∀ h ∈ hs, isHex h = true) →
      isScalar (valueOf 16 hs) = true → QItem quote ('\\' :: 'u' :: '{' :: (hs ++ ['}'])) (utf8 (valueOf 16 hs))
  | raw (c : Char) : isAscii c = false → (c == quote) = false → QItem quote [c] (utf8 c.toNat)

theorem spanHex_append (hs rest : List Char) (hh : ∀ h ∈ hs, isHex h = true) (hr : ∀ c, rest.head? = some c → isHex c = false) :
    spanHex (hs ++ rest) = (hs, rest) := by
  induction hs with
  | nil =>
    cases rest with
    | nil => rfl
    | cons c r => simp [spanHex, hr c rfl]
  | cons h hs ih =>
    have := ih (fun x hx => hh x (List.mem_cons_of_mem _ hx))
    simp [spanHex, hh h List.mem_cons_self, this]

/-- what the loop has seen so far is unchanged by an item, except for the bytes it adds -/
def Advances (q q' : QSt) (bytes : List Nat) (n : Nat) : Prop :=
  q'.firstErr = q.firstErr ∧ q'.closed = q.closed ∧ q'.bytes = bytes.reverse ++ q.bytes ∧ q'.stop = q.stop + n

theorem nonascii_facts (c : Char) (h : isAscii c = false) :
    (c == '\\') = false ∧ (c == ' ') = false ∧ isAsciiGraphic c = false := by
  unfold isAscii at h
  simp only [decide_eq_false_iff_not, Nat.not_lt] at h
  refine ⟨?_, ?_, ?_⟩
  · cases hb : (c == '\\') with
    | false => rfl
    | true => simp only [beq_iff_eq] at hb; subst hb; exact absurd h (by decide)
  · cases hb : (c == ' ') with
    | false => rfl
    | true => simp only [beq_iff_eq] at hb; subst hb; exact absurd h (by decide)
  · cases hb : isAsciiGraphic c with
    | false => rfl
    | true =>
      unfold isAsciiGraphic at hb
      simp only [Bool.and_eq_true, decide_eq_true_eq] at hb
      have := Char.le_def.mp hb.2
      rw [UInt32.le_iff_toNat_le] at this
      have e : c.val.toNat = c.toNat := rfl
      have e2 : ('~' : Char).val.toNat = 126 := by decide
      omega

theorem lexQuote_item (quote : Char) (hq : (quote == '\\') = false) (sp : List Char) (bytes : List Nat) (h : QItem quote sp bytes) :
    ∀ (rest : List Char) (f : Nat) (q : QSt), ∃ q', lexQuote quote (f + 1) (sp ++ rest) q = lexQuote quote f rest q' ∧ Advances q q' bytes sp.length := by
  intro rest f q
  cases h with
  | plain c hp =>
    unfold plainFor at hp
    simp only [Bool.and_eq_true, bne_iff_ne, ne_eq, Bool.or_eq_true, beq_iff_eq] at hp
    obtain ⟨⟨h1, h2⟩, h3⟩ := hp
    have e1 : (c == '\\') = false := by simpa using h1
    have e2 : (c == quote) = false := by simpa using h2
    by_cases hsp : c = ' '
    · subst hsp
      simp only [List.cons_append, List.nil_append, lexQuote, e1, e2, Bool.false_eq_true, if_false, beq_self_eq_true, if_true]
      exact ⟨_, rfl, rfl, rfl, by simp, by simp [Nat.add_assoc] <;> omega⟩
    · have e3 : (c == ' ') = false := by simpa using hsp
      have h3' : isAsciiGraphic c = true := by rcases h3 with h3 | h3; exact absurd h3 hsp; exact h3
      simp only [List.cons_append, List.nil_append, lexQuote, e1, e2, e3, h3', Bool.false_eq_true, if_false, if_true]
      exact ⟨_, rfl, rfl, rfl, by simp, by simp [Nat.add_assoc] <;> omega⟩
  | esc y b hm =>
    simp only [List.mem_cons, Prod.mk.injEq, List.mem_nil_iff, or_false] at hm
    rcases hm with ⟨rfl, rfl⟩ | ⟨rfl, rfl⟩ | ⟨rfl, rfl⟩ | ⟨rfl, rfl⟩ | ⟨rfl, rfl⟩ | ⟨rfl, rfl⟩ | ⟨rfl, rfl⟩ <;>
    · simp only [List.cons_append, List.nil_append, lexQuote]
      simp only [beq_self_eq_true, if_true, show ('\\' == '\\') = true from rfl]
      first
        | exact ⟨_, rfl, rfl, rfl, by simp, by simp [Nat.add_assoc] <;> omega⟩
        | (simp (config := {decide := true}) only [if_false, if_true]; exact ⟨_, rfl, rfl, rfl, by simp, by simp [Nat.add_assoc] <;> omega⟩)
  | hex2 a b ha hb =>
    have ht : takeHex2 (a :: b :: rest) = ([a, b], rest) := by simp [takeHex2, ha, hb]
    simp [lexQuote, ht]
    exact ⟨_, rfl, rfl, rfl, by simp, by simp [Nat.add_assoc] <;> omega⟩
  | uni hs hq hne hlen hh hsc =>
    subst hq
    have hs' := spanHex_append hs ('}' :: rest) hh (by intro c hc; simp at hc; subst hc; decide)
    have hne' : hs.isEmpty = false := by cases hs with | nil => exact absurd rfl hne | cons _ _ => rfl
    simp [lexQuote, hs', hne', hlen, hsc]
    exact ⟨_, rfl, rfl, rfl, by simp, by simp [Nat.add_assoc] <;> omega⟩
  | raw c hc hcq =>
    obtain ⟨e1, e3, e4⟩ := nonascii_facts c hc
    simp only [List.cons_append, List.nil_append, lexQuote, e1, hcq, e3, e4, hc, Bool.false_eq_true, if_false]
    exact ⟨_, rfl, rfl, rfl, by simp, by simp [Nat.add_assoc] <;> omega⟩

/-- a run of items: spelling, bytes, number of items -/
inductive QItems (quote : Char) : List Char → List Nat → Nat → Prop
  | nil : QItems quote [] [] 0
  | cons {sp sps : List Char} {b bs : List Nat} {n : Nat} : QItem quote sp b → QItems quote sps bs n →
      QItems quote (sp ++ sps) (b ++ bs) (n + 1)

theorem QItem.length_pos {quote : Char} {sp : List Char} {b : List Nat} (h : QItem quote sp b) : 1 ≤ sp.length := by
  cases h <;> simp

theorem QItems.count_le {quote : Char} {sps : List Char} {bs : List Nat} {n : Nat} (h : QItems quote sps bs n) : n ≤ sps.length := by
  induction h with
  | nil => simp
  | cons hi _ ih =>
    have := hi.length_pos
    simp only [List.length_append]; omega

theorem lexQuote_items (quote : Char) (hq : (quote == '\\') = false) {sps : List Char} {bs : List Nat} {n : Nat}
    (h : QItems quote sps bs n) : ∀ (rest : List Char) (f : Nat) (q : QSt), n < f →
    ∃ q', lexQuote quote f (sps ++ quote :: rest) q = (q', rest) ∧ q'.firstErr = q.firstErr ∧ q'.closed = true ∧
      q'.bytes = bs.reverse ++ q.bytes ∧ q'.stop = q.stop + (sps.length + 1) := by
  induction h with
  | nil =>
    intro rest f q hf
    obtain ⟨f', rfl⟩ : ∃ f', f = f' + 1 := ⟨f - 1, by omega⟩
    simp only [List.nil_append, lexQuote, hq, Bool.false_eq_true, if_false, beq_self_eq_true, if_true]
    exact ⟨_, rfl, rfl, rfl, by simp, by simp⟩
  | cons hi _ ih =>
    intro rest f q hf
    obtain ⟨f', rfl⟩ : ∃ f', f = f' + 1 := ⟨f - 1, by omega⟩
    obtain ⟨q1, h1, ha1, ha2, ha3, ha4⟩ := lexQuote_item quote hq _ _ hi (_ ++ quote :: rest) f' q
    obtain ⟨q2, h2, hb1, hb2, hb3, hb4⟩ := ih rest f' q1 (by omega)
    refine ⟨q2, ?_, ?_, hb2, ?_, ?_⟩
    · rw [List.append_assoc, h1, h2]
    · rw [hb1, ha1]
    · rw [hb3, ha3]; simp
    · rw [hb4, ha4]; simp only [List.length_append]; omega

theorem quote_char_facts (x : Char) (hx : x = '"' ∨ x = '\'') :
    (x == ' ' || x == '\t') = false ∧ (x == '/') = false ∧ isSym1 x = false ∧ isIdentStart x = false ∧ (x == '0') = false ∧
      isDigit x = false ∧ (x == '"' || x == '\'') = true ∧ (x == '\\') = false ∧ isIdentCont x = false := by
  rcases hx with rfl | rfl <;> decide

/-- a string literal made of such items is one non-error token, whatever follows -/
theorem closedLex_string {sps : List Char} {bs : List Nat} {n : Nat} (h : QItems '"' sps bs n) :
    ClosedLex ('"' :: (sps ++ ['"'])) := by
  intro tail ln col off
  obtain ⟨f1, f2, f3, f4, f5, f6, f7, f8, _⟩ := quote_char_facts '"' (Or.inl rfl)
  have hcnt := h.count_le
  obtain ⟨q', hl, he, hc, hb, _⟩ := lexQuote_items '"' f8 h tail (sps ++ '"' :: tail).length
    { stop := off + 1, eol := col + 1, idx := col + 1 } (by simp only [List.length_append, List.length_cons]; omega)
  simp only [List.cons_append, List.append_assoc, List.nil_append]
  unfold lexStep
  simp only [f1, f2, f3, f4, f5, f6, Bool.false_eq_true, if_false, Bool.false_and, beq_self_eq_true, Bool.true_or, if_true, hl, hc]
  simp only at he
  rw [he]
  exact ⟨_, rfl, rfl⟩

/-- a character literal: one item standing for exactly one byte -/
theorem closedLex_char {sp : List Char} {b : Nat} (h : QItem '\'' sp [b]) : ClosedLex ('\'' :: (sp ++ ['\''])) := by
  intro tail ln col off
  obtain ⟨f1, f2, f3, f4, f5, f6, f7, f8, _⟩ := quote_char_facts '\'' (Or.inr rfl)
  have hi : QItems '\'' (sp ++ []) ([b] ++ []) 1 := QItems.cons h QItems.nil
  simp only [List.append_nil] at hi
  have hcnt := hi.count_le
  obtain ⟨q', hl, he, hc, hb, _⟩ := lexQuote_items '\'' f8 hi tail (sp ++ '\'' :: tail).length
    { stop := off + 1, eol := col + 1, idx := col + 1 } (by simp only [List.length_append, List.length_cons]; omega)
  have f9 : ('\'' == '"') = false := by decide
  simp only [List.cons_append, List.append_assoc, List.nil_append]
  unfold lexStep
  simp only [f1, f2, f3, f4, f5, f6, f9, Bool.false_eq_true, if_false, Bool.false_and, beq_self_eq_true, Bool.or_true, Bool.false_or,
    if_true, hl, hc]
  simp only at he hb
  rw [he]
  simp only [List.reverse_cons, List.reverse_nil, List.nil_append, List.append_nil] at hb
  rw [hb]
  exact ⟨_, rfl, rfl⟩

/-- **string literals with escapes and non-ASCII text, exactly**: a literal made of items is the string token with the bytes
    the items stand for, spanning exactly its characters, whatever follows -/
theorem lexemeP_string_items {sps : List Char} {bs : List Nat} {n : Nat} (h : QItems '"' sps bs n) :
    LexemeP AfterAny ('"' :: (sps ++ ['"'])) (.str bs) := by
  refine ⟨by simp, ?_⟩
  intro ln col off tail _
  obtain ⟨f1, f2, f3, f4, f5, f6, f7, f8, _⟩ := quote_char_facts '"' (Or.inl rfl)
  have hcnt := h.count_le
  obtain ⟨q', hl, he, hc, hb, hst⟩ := lexQuote_items '"' f8 h tail (sps ++ '"' :: tail).length
    { stop := off + 1, eol := col + 1, idx := col + 1 } (by simp only [List.length_append, List.length_cons]; omega)
  simp only [List.cons_append, List.append_assoc, List.nil_append]
  unfold lexStep
  simp only [f1, f2, f3, f4, f5, f6, Bool.false_eq_true, if_false, Bool.false_and, beq_self_eq_true, Bool.true_or, if_true, hl, hc]
  simp only at he hb hst
  rw [he]
  simp only [hb, List.append_nil, List.reverse_reverse, List.length_cons, List.length_append, List.length_nil]
  rw [hst]
  have e : off + 1 + (sps.length + 1) = off + (sps.length + (0 + 1) + 1) := by omega
  rw [e]

/-- a character literal: one item standing for one byte -/
theorem lexemeP_char_item {sp : List Char} {b : Nat} (h : QItem '\'' sp [b]) :
    LexemeP AfterAny ('\'' :: (sp ++ ['\''])) (.chr b) := by
  refine ⟨by simp, ?_⟩
  intro ln col off tail _
  obtain ⟨f1, f2, f3, f4, f5, f6, f7, f8, _⟩ := quote_char_facts '\'' (Or.inr rfl)
  have hi : QItems '\'' (sp ++ []) ([b] ++ []) 1 := QItems.cons h QItems.nil
  simp only [List.append_nil] at hi
  have hcnt := hi.count_le
  obtain ⟨q', hl, he, hc, hb, hst⟩ := lexQuote_items '\'' f8 hi tail (sp ++ '\'' :: tail).length
    { stop := off + 1, eol := col + 1, idx := col + 1 } (by simp only [List.length_append, List.length_cons]; omega)
  have f9 : ('\'' == '"') = false := by decide
  simp only [List.cons_append, List.append_assoc, List.nil_append]
  unfold lexStep
  simp only [f1, f2, f3, f4, f5, f6, f9, Bool.false_eq_true, if_false, Bool.false_and, beq_self_eq_true, Bool.or_true, Bool.false_or,
    if_true, hl, hc]
  simp only at he hb hst
  rw [he]
  simp only [List.reverse_cons, List.reverse_nil, List.nil_append, List.append_nil] at hb
  simp only [hb, List.length_cons, List.length_append, List.length_nil]
  rw [hst]
  have e : off + 1 + (sp.length + 1) = off + (sp.length + (0 + 1) + 1) := by omega
  rw [e]

end Lex
