/-
  C19, composition: text assembled the way `src/delta/fuzzer.rs` assembles it never contains a lexical
  error, whatever pieces are drawn and however they end up glued together.

  `Safe cs` — the closure of "one `lexStep` yields no error token and leaves a `Safe` rest"; `safe_noErr`: a safe line
  lexes without error tokens.  `emit` is the fuzzer's assembly of one line: before every piece any blanks
  (`add_whitespace`), before a word-like piece one more space if the last byte is an identifier character
  (`add_space_if_necessary`), then the piece; at the end of the line nothing or a `//` comment.  Symbols may glue (`<`
  `<` becomes `<<`, `x` `!=` becomes `x!` `=`, `/` `//…` a comment): `emit_safe` shows that every such line is safe.
-/
import PenneModel.Lex.Lexemes

namespace Lex

def Tok.isErr : Tok → Bool
  | .err _ => true
  | _ => false

def errFree (ts : List LTok) : Prop := ∀ t ∈ ts, t.tok.isErr = false

inductive Safe : List Char → Prop
  | nil : Safe []
  | comment (cs : List Char) : (∀ ln col off, lexStep ln col off cs = none) → Safe cs
  | skip (cs rest : List Char) : (∀ ln col off, lexStep ln col off cs = some ([], rest)) → Safe rest → Safe cs
  | tok (cs rest : List Char) :
      (∀ ln col off, ∃ t, t.tok.isErr = false ∧ lexStep ln col off cs = some ([t], rest)) → Safe rest → Safe cs

theorem safe_noErr {cs : List Char} (h : Safe cs) : ∀ ln fuel col off, errFree (lexLineAux ln fuel col off cs) := by
  induction h with
  | nil => intro ln fuel col off; cases fuel <;> (intro t ht; simp [lexLineAux] at ht)
  | comment cs hc =>
    intro ln fuel col off
    cases fuel with
    | zero => intro t ht; simp [lexLineAux] at ht
    | succ f =>
      cases cs with
      | nil => intro t ht; simp [lexLineAux] at ht
      | cons c cs' => intro t ht; simp [lexLineAux, hc ln col off] at ht
  | skip cs rest hs _ ih =>
    intro ln fuel col off
    cases fuel with
    | zero => intro t ht; simp [lexLineAux] at ht
    | succ f =>
      cases cs with
      | nil => intro t ht; simp [lexLineAux] at ht
      | cons c cs' =>
        intro t ht
        simp only [lexLineAux, hs ln col off, List.nil_append] at ht
        exact ih _ _ _ _ t ht
  | tok cs rest hs _ ih =>
    intro ln fuel col off
    cases fuel with
    | zero => intro t ht; simp [lexLineAux] at ht
    | succ f =>
      cases cs with
      | nil => intro t ht; simp [lexLineAux] at ht
      | cons c cs' =>
        obtain ⟨t0, h0, hstep⟩ := hs ln col off
        intro t ht
        simp only [lexLineAux, hstep, List.singleton_append, List.mem_cons] at ht
        rcases ht with rfl | ht
        · exact h0
        · exact ih _ _ _ _ t ht

/-- safe, and still safe after dropping a leading symbol character other than `/` (it may get glued to the symbol before it) -/
def Safe2 (cs : List Char) : Prop :=
  Safe cs ∧ ∀ y rest, cs = y :: rest → isSym1 y = true → y ≠ '/' → Safe rest

theorem sym2_second (a y : Char) (t : Tok) (h : sym2 a y = some t) : isSym1 y = true ∧ y ≠ '/' ∧ t = .sym [a, y] := by
  unfold sym2 at h
  split at h
  · rename_i hc
    simp only [Option.some.injEq] at h
    refine ⟨?_, ?_, h.symm⟩
    · simp only [Bool.or_eq_true, Bool.and_eq_true, beq_iff_eq] at hc
      rcases hc with ((((((((⟨_, rfl⟩ | ⟨_, rfl⟩) | ⟨_, rfl⟩) | ⟨_, rfl⟩) | ⟨_, rfl⟩) | ⟨_, rfl⟩) | ⟨_, rfl⟩) | ⟨_, rfl⟩) | ⟨_, rfl⟩) <;> decide
    · simp only [Bool.or_eq_true, Bool.and_eq_true, beq_iff_eq] at hc
      rcases hc with ((((((((⟨_, rfl⟩ | ⟨_, rfl⟩) | ⟨_, rfl⟩) | ⟨_, rfl⟩) | ⟨_, rfl⟩) | ⟨_, rfl⟩) | ⟨_, rfl⟩) | ⟨_, rfl⟩) | ⟨_, rfl⟩) <;> decide
  · cases h

/-- a symbol character in front of safe text: it stands alone, or is glued to the next character, or starts a comment -/
theorem safe2_sym (c : Char) (E : List Char) (hc : isSym1 c = true) (hE : Safe2 E) : Safe2 (c :: E) := by
  have hb := sym1_not_blank c hc
  constructor
  · cases E with
    | nil =>
      refine Safe.tok [c] [] ?_ Safe.nil
      intro ln col off
      refine ⟨{ tok := .sym [c], start := off, stop := off + 1, line := ln, col := col }, rfl, ?_⟩
      unfold lexStep
      simp [hb, hc]
    | cons y E' =>
      by_cases hcom : c = '/' ∧ y = '/'
      · obtain ⟨rfl, rfl⟩ := hcom
        refine Safe.comment _ ?_
        intro ln col off
        unfold lexStep
        simp
      · have hcom' : (c == '/' && (y :: E').head? == some '/') = false := by
          cases h : (c == '/' && (y :: E').head? == some '/') with
          | false => rfl
          | true =>
            simp only [List.head?_cons, Bool.and_eq_true, beq_iff_eq, Option.some.injEq] at h
            exact absurd h hcom
        cases hs : sym2 c y with
        | none =>
          refine Safe.tok (c :: y :: E') (y :: E') ?_ hE.1
          intro ln col off
          refine ⟨{ tok := .sym [c], start := off, stop := off + 1, line := ln, col := col }, rfl, ?_⟩
          unfold lexStep
          simp only [hb, hcom', hc, hs, Bool.false_eq_true, if_false, if_true]
        | some t =>
          obtain ⟨hy, hy2, rfl⟩ := sym2_second c y t hs
          refine Safe.tok (c :: y :: E') E' ?_ (hE.2 y E' rfl hy hy2)
          intro ln col off
          refine ⟨{ tok := .sym [c, y], start := off, stop := off + 2, line := ln, col := col }, rfl, ?_⟩
          unfold lexStep
          simp only [hb, hcom', hc, hs, Bool.false_eq_true, if_false, if_true]
  · intro y rest he _ _
    injection he with h1 h2
    subst h2
    exact hE.1

theorem safe2_blank (c : Char) (E : List Char) (hc : isBlank c = true) (hE : Safe E) : Safe2 (c :: E) := by
  constructor
  · refine Safe.skip _ E ?_ hE
    intro ln col off
    exact lexStep_blank ln col off c E hc
  · intro y rest he hy _
    injection he with h1 h2
    rw [← h1] at hy
    rcases blank_cases c hc with rfl | rfl <;> exact absurd hy (by decide)

theorem safe2_blanks : ∀ (ws : List Char) (E : List Char), (∀ c ∈ ws, isBlank c = true) → Safe2 E → Safe2 (ws ++ E)
  | [], E, _, hE => hE
  | w :: ws, E, hb, hE => by
    have := safe2_blanks ws E (fun c hc => hb c (List.mem_cons_of_mem _ hc)) hE
    exact safe2_blank w (ws ++ E) (hb w List.mem_cons_self) this.1

theorem safe2_comment (rest : List Char) : Safe2 ('/' :: '/' :: rest) := by
  constructor
  · refine Safe.comment _ ?_
    intro ln col off
    unfold lexStep
    simp
  · intro y r he _ hy
    injection he with h1 h2
    exact absurd h1.symm hy

theorem safe2_nil : Safe2 [] := ⟨Safe.nil, fun _ _ he => by cases he⟩

/-! ### the pieces the fuzzer draws, and how it assembles a line -/

/-- a word-like spelling (identifier, keyword, type name, number): followed by anything that cannot extend it, the lexer
    cuts off one non-error token — the word, or the word and a directly following `!` (a builtin) -/
def WordLex (w : List Char) : Prop :=
  ∀ tail, Stops tail →
    (∀ ln col off, ∃ t, t.tok.isErr = false ∧ lexStep ln col off (w ++ tail) = some ([t], tail)) ∨
    (∃ tail', tail = '!' :: tail' ∧ ∀ ln col off, ∃ t, t.tok.isErr = false ∧ lexStep ln col off (w ++ tail) = some ([t], tail'))

/-- a spelling that is cut off as one non-error token whatever follows (builtins, string and character literals) -/
def ClosedLex (q : List Char) : Prop :=
  ∀ tail ln col off, ∃ t, t.tok.isErr = false ∧ lexStep ln col off (q ++ tail) = some ([t], tail)

structure Piece where
  /-- `add_whitespace`: indentation after a line break, or at most one space (here: any blanks) -/
  blanks : List Char
  text : List Char
  /-- the arm calls `add_space_if_necessary` before pushing the text -/
  wordStart : Bool

inductive PieceOK : Piece → Prop
  /-- identifiers, keywords, type names, `true`/`false`, `_`, numbers with or without suffix -/
  | word (bl w : List Char) (x : Char) (xs : List Char) : (∀ c ∈ bl, isBlank c = true) → WordLex w → w = x :: xs →
      isIdentCont x = true → (∀ c, w.getLast? = some c → isIdentCont c = true) → PieceOK ⟨bl, w, true⟩
  /-- builtins (`wordStart`), string and character literals (not `wordStart`: they start with a quote) -/
  | closed (bl q : List Char) (x : Char) (xs : List Char) (ws : Bool) : (∀ c ∈ bl, isBlank c = true) → ClosedLex q → q = x :: xs →
      isSym1 x = false → (ws = false → isIdentCont x = false) → PieceOK ⟨bl, q, ws⟩
  /-- punctuation, one or two characters -/
  | sym (bl s : List Char) (x : Char) (xs : List Char) : (∀ c ∈ bl, isBlank c = true) → s = x :: xs → (∀ c ∈ s, isSym1 c = true) →
      PieceOK ⟨bl, s, false⟩

def lastOr (prev : Option Char) (l : List Char) : Option Char :=
  match l.getLast? with
  | some c => some c
  | none => prev

def afterIdent (prev : Option Char) : Bool := (prev.map isIdentCont).getD false

/-- one line as the fuzzer assembles it; `prev` is the last byte pushed so far on this line -/
def emit (tr : List Char) : Option Char → List Piece → List Char
  | _, [] => tr
  | prev, p :: ps =>
    p.blanks ++ ((if p.wordStart && afterIdent (lastOr prev p.blanks) then [' '] else []) ++
      (p.text ++ emit tr (lastOr prev p.text) ps))

theorem identCont_not_sym (c : Char) (h : isIdentCont c = true) : isSym1 c = false := by
  cases hs : isSym1 c with
  | false => rfl
  | true =>
    have := sym1_chars c hs
    simp only [List.mem_cons, List.mem_nil_iff, or_false] at this
    rcases this with rfl | rfl | rfl | rfl | rfl | rfl | rfl | rfl | rfl | rfl | rfl | rfl | rfl | rfl | rfl | rfl | rfl | rfl | rfl | rfl | rfl | rfl <;>
      exact absurd h (by decide)

theorem blank_not_identCont (c : Char) (h : isBlank c = true) : isIdentCont c = false := by
  rcases blank_cases c h with rfl | rfl <;> decide

theorem safe2_syms : ∀ (s E : List Char), (∀ c ∈ s, isSym1 c = true) → Safe2 E → Safe2 (s ++ E)
  | [], E, _, hE => hE
  | c :: s, E, hs, hE =>
    safe2_sym c (s ++ E) (hs c List.mem_cons_self) (safe2_syms s E (fun x hx => hs x (List.mem_cons_of_mem _ hx)) hE)

theorem lastOr_cons_append (prev : Option Char) (x : Char) (xs : List Char) :
    ∃ c, lastOr prev (x :: xs) = some c ∧ (x :: xs).getLast? = some c := by
  unfold lastOr
  cases h : (x :: xs).getLast? with
  | none => simp at h
  | some c => exact ⟨c, rfl, rfl⟩

theorem stops_of_head {E : List Char} (h : ∀ c, E.head? = some c → isIdentCont c = false) : Stops E := h

/-- **every line the fuzzer can assemble is safe** -/
theorem emit_safe2 (tr : List Char) (htr : IsTrailer tr) : ∀ (ps : List Piece), (∀ p ∈ ps, PieceOK p) → ∀ prev,
    Safe2 (emit tr prev ps) ∧ (afterIdent prev = true → Stops (emit tr prev ps))
  | [], _, prev => by
    simp only [emit]
    rcases htr with rfl | ⟨rest, rfl⟩
    · exact ⟨safe2_nil, fun _ => stops_nil⟩
    · refine ⟨safe2_comment rest, fun _ => ?_⟩
      intro c hc; simp at hc; subst hc; decide
  | p :: ps, hok, prev => by
    have hp := hok p List.mem_cons_self
    have ih := emit_safe2 tr htr ps (fun q hq => hok q (List.mem_cons_of_mem _ hq))
    simp only [emit]
    -- the piece's text in front of what follows it
    have hT : Safe2 (p.text ++ emit tr (lastOr prev p.text) ps) ∧
        (p.wordStart = false → ∀ c, (p.text ++ emit tr (lastOr prev p.text) ps).head? = some c → isIdentCont c = false) := by
      cases hp with
      | word bl w x xs hbl hw hwe hx hlast =>
        simp only
        obtain ⟨c, hc1, hc2⟩ := lastOr_cons_append prev x xs
        rw [← hwe] at hc1 hc2
        have hE := ih (lastOr prev w)
        have hstops : Stops (emit tr (lastOr prev w) ps) := hE.2 (by rw [hc1]; simp [afterIdent, hlast c hc2])
        refine ⟨⟨?_, ?_⟩, fun h => by cases h⟩
        · rcases hw _ hstops with h1 | ⟨tail', he, h2⟩
          · exact Safe.tok _ _ h1 hE.1.1
          · exact Safe.tok _ _ h2 (hE.1.2 '!' tail' he (by decide) (by decide))
        · intro y rest he hy _
          rw [hwe] at he
          simp only [List.cons_append] at he
          injection he with h1 h2
          rw [← h1] at hy
          rw [identCont_not_sym x hx] at hy
          cases hy
      | closed bl q x xs ws hbl hq hqe hx hws =>
        simp only
        have hE := ih (lastOr prev q)
        refine ⟨⟨Safe.tok _ _ (fun ln col off => hq _ ln col off) hE.1.1, ?_⟩, ?_⟩
        · intro y rest he hy _
          rw [hqe] at he
          simp only [List.cons_append] at he
          injection he with h1 h2
          rw [← h1, hx] at hy
          cases hy
        · intro hf c hc
          rw [hqe] at hc
          simp only [List.cons_append, List.head?_cons, Option.some.injEq] at hc
          subst hc
          exact hws hf
      | sym bl s x xs hbl hse hs =>
        simp only
        have hE := ih (lastOr prev s)
        refine ⟨safe2_syms s _ hs hE.1, ?_⟩
        intro _ c hc
        rw [hse] at hc
        simp only [List.cons_append, List.head?_cons, Option.some.injEq] at hc
        subst hc
        cases hi : isIdentCont x with
        | false => rfl
        | true =>
          have := identCont_not_sym x hi
          rw [hs x (by rw [hse]; exact List.mem_cons_self)] at this
          cases this
    have hblanks : ∀ c ∈ p.blanks, isBlank c = true := by
      cases hp <;> assumption
    constructor
    · apply safe2_blanks _ _ hblanks
      split
      · exact safe2_blank ' ' _ (by decide) hT.1.1
      · exact hT.1
    · intro hprev
      cases hb : p.blanks with
      | cons b bs =>
        intro c hc
        simp only [List.cons_append, List.head?_cons, Option.some.injEq] at hc
        subst hc
        exact blank_not_identCont b (hblanks b (by rw [hb]; exact List.mem_cons_self))
      | nil =>
        simp only [List.nil_append]
        have hl : lastOr prev [] = prev := rfl
        rw [hl, hprev]
        cases hw : p.wordStart with
        | true =>
          intro c hc
          simp at hc
          subst hc; decide
        | false =>
          simp only [Bool.false_and, Bool.false_eq_true, if_false, List.nil_append]
          exact hT.2 hw

/-! ### whole outputs: lines ended by `\n` or `\r\n` -/

theorem errFree_append {a b : List LTok} (ha : errFree a) (hb : errFree b) : errFree (a ++ b) := by
  intro t ht
  rcases List.mem_append.1 ht with h | h
  · exact ha t h
  · exact hb t h

theorem lexLines_errFree : ∀ (lines : List (List Char × Nat)) (ln off : Nat), (∀ l ∈ lines, Safe l.1) →
    errFree (lexLines ln off lines)
  | [], _, _, _ => by intro t ht; simp [lexLines] at ht
  | (l, e) :: ls, ln, off, h => by
    simp only [lexLines]
    refine errFree_append ?_ (lexLines_errFree ls _ _ (fun x hx => h x (List.mem_cons_of_mem _ hx)))
    unfold lexLine
    exact safe_noErr (h (l, e) List.mem_cons_self) _ _ _ _

/-- a line of text and whether it ends with `\r\n` -/
structure TextLine where
  text : List Char
  crlf : Bool

def TextLine.ending (l : TextLine) : List Char := if l.crlf then ['\r', '\n'] else ['\n']

def textOf : List TextLine → List Char
  | [] => []
  | l :: ls => l.text ++ l.ending ++ textOf ls

/-- no line break inside a line; a line that ends in `\n` alone does not end with a carriage return (such a text is the
    same text with that line described as ending in `\r\n`) -/
def TextLine.Plain (l : TextLine) : Prop := '\n' ∉ l.text ∧ (l.crlf = false → l.text.getLast? ≠ some '\r')

theorem splitLines_textOf : ∀ (ls : List TextLine), (∀ l ∈ ls, l.Plain) →
    splitLines (textOf ls) [] = ls.map (fun l => (l.text, l.ending.length))
  | [], _ => by simp [textOf, splitLines]
  | l :: ls, h => by
    have hl := h l List.mem_cons_self
    have ih := splitLines_textOf ls (fun x hx => h x (List.mem_cons_of_mem _ hx))
    simp only [textOf, List.map_cons]
    unfold TextLine.ending
    cases hc : l.crlf with
    | false =>
      simp only [Bool.false_eq_true, if_false, List.append_assoc, List.cons_append, List.nil_append]
      rw [splitLines_text l.text _ [] hl.1, ih]
      simp only [List.append_nil, List.length_cons, List.length_nil]
      have := hl.2 hc
      split
      · rename_i a he
        have h2 := congrArg List.head? he
        rw [List.head?_reverse] at h2
        exact absurd h2 this
      · simp
        exact fun a _ => rfl
    | true =>
      simp only [if_true, List.append_assoc, List.cons_append, List.nil_append]
      have h2 : '\n' ∉ l.text ++ ['\r'] := by
        intro hm
        rcases List.mem_append.1 hm with hm | hm
        · exact hl.1 hm
        · simp at hm
      have := splitLines_text (l.text ++ ['\r']) (textOf ls) [] h2
      simp only [List.append_assoc, List.cons_append, List.nil_append] at this
      rw [this, ih]
      simp
      exact fun a _ => rfl

/-- a text all of whose lines are safe lexes without a single error token -/
theorem lex_errFree (ls : List TextLine) (hne : ls ≠ []) (hp : ∀ l ∈ ls, l.Plain) (hs : ∀ l ∈ ls, Safe l.text) :
    errFree (lex (textOf ls)) := by
  unfold lex
  have : (textOf ls).isEmpty = false := by
    cases ls with
    | nil => exact absurd rfl hne
    | cons l rest =>
      simp only [textOf, TextLine.ending]
      cases l.crlf <;> simp
  rw [this]
  simp only [Bool.false_eq_true, if_false]
  rw [splitLines_textOf ls hp]
  apply lexLines_errFree
  intro x hx
  simp only [List.mem_map] at hx
  obtain ⟨l, hl, rfl⟩ := hx
  exact hs l hl

end Lex
