/-
  `Lexeme` instances (see Lex/Sequence.lean) for identifiers, builtins, keywords and type names,
  punctuation, and plain string / character literals.  The integer literals are in Props/C14.lean.
-/
import PenneModel.Lex.Sequence

namespace Lex

/-! ### characters that start an identifier are nothing else -/

theorem sym1_chars (c : Char) (h : isSym1 c = true) :
    c ∈ ['(', ')', '{', '}', '[', ']', '<', '>', '|', '&', '^', '!', '+', '*', '%', ':', ';', '.', ',', '=', '-', '/'] := by
  unfold isSym1 at h
  simpa using h

theorem identStart_facts (c : Char) (h : isIdentStart c = true) :
    (c == ' ' || c == '\t') = false ∧ (c == '/') = false ∧ isSym1 c = false := by
  refine ⟨?_, ?_, ?_⟩
  · cases hb : (c == ' ' || c == '\t') with
    | false => rfl
    | true =>
      simp only [Bool.or_eq_true, beq_iff_eq] at hb
      rcases hb with rfl | rfl <;> exact absurd h (by decide)
  · cases hb : (c == '/') with
    | false => rfl
    | true =>
      simp only [beq_iff_eq] at hb
      subst hb; exact absurd h (by decide)
  · cases hb : isSym1 c with
    | false => rfl
    | true =>
      have := sym1_chars c hb
      simp only [List.mem_cons, List.mem_nil_iff, or_false] at this
      rcases this with rfl | rfl | rfl | rfl | rfl | rfl | rfl | rfl | rfl | rfl | rfl | rfl | rfl | rfl | rfl | rfl | rfl | rfl | rfl | rfl | rfl | rfl <;>
        exact absurd h (by decide)

theorem blankStart_not_bang {tail : List Char} (h : BlankStart tail) : ∀ rest, tail ≠ '!' :: rest := by
  intro rest he
  have := h '!' (by rw [he]; rfl)
  exact absurd this (by decide)

/-- what may follow an identifier: nothing that continues it, and not `!` (that would make it a builtin) -/
def AfterIdent (tail : List Char) : Prop := Stops tail ∧ ∀ rest, tail ≠ '!' :: rest

/-- an identifier that is not a reserved word -/
theorem lexemeP_ident (x : Char) (xs : List Char) (hx : isIdentStart x = true) (hxs : ∀ c ∈ xs, isIdentCont c = true)
    (hk : lookupKw (x :: xs) = none) : LexemeP AfterIdent (x :: xs) (.ident (x :: xs)) := by
  refine ⟨by simp, ?_⟩
  intro ln col off tail ht
  obtain ⟨h1, h2, h3⟩ := identStart_facts x hx
  have hs := spanIdent_append xs tail hxs ht.1
  have hb := ht.2
  simp only [List.cons_append]
  unfold lexStep
  simp only [h1, h2, h3, hx, hs, hk, Bool.false_eq_true, if_false, if_true, Bool.false_and]

theorem lexeme_ident (x : Char) (xs : List Char) (hx : isIdentStart x = true) (hxs : ∀ c ∈ xs, isIdentCont c = true)
    (hk : lookupKw (x :: xs) = none) : Lexeme (x :: xs) (.ident (x :: xs)) :=
  (lexemeP_ident x xs hx hxs hk).weaken (fun _ ht => ⟨ht.stops, blankStart_not_bang ht⟩)

/-- anything may follow -/
def AfterAny (_ : List Char) : Prop := True

/-- a builtin: an identifier immediately followed by `!` -/
theorem lexemeP_builtin (x : Char) (xs : List Char) (hx : isIdentStart x = true) (hxs : ∀ c ∈ xs, isIdentCont c = true)
    (hk : lookupKw (x :: xs) = none) : LexemeP AfterAny (x :: xs ++ ['!']) (.builtin (x :: xs)) := by
  refine ⟨by simp, ?_⟩
  intro ln col off tail _
  obtain ⟨h1, h2, h3⟩ := identStart_facts x hx
  have hs := spanIdent_append xs ('!' :: tail) hxs (by intro c hc; simp at hc; subst hc; decide)
  simp only [List.cons_append, List.append_assoc, List.nil_append]
  unfold lexStep
  simp only [h1, h2, h3, hx, hs, hk, Bool.false_eq_true, if_false, if_true, Bool.false_and]
  simp [Nat.add_assoc]

theorem lexeme_builtin (x : Char) (xs : List Char) (hx : isIdentStart x = true) (hxs : ∀ c ∈ xs, isIdentCont c = true)
    (hk : lookupKw (x :: xs) = none) : Lexeme (x :: xs ++ ['!']) (.builtin (x :: xs)) :=
  (lexemeP_builtin x xs hx hxs hk).weaken (fun _ _ => trivial)

/-- keywords, type names, `true` / `false`, `_`: the complete table -/
def kwShape (p : List Char × Tok) : Bool :=
  lookupKw p.1 == some p.2 && (match p.1 with
    | x :: xs => isIdentStart x && xs.all isIdentCont
    | [] => false)

theorem keyword_table_checked : keywords.all kwShape = true := by decide +kernel

theorem keyword_table_facts : ∀ p ∈ keywords, lookupKw p.1 = some p.2 ∧
    ∃ x xs, p.1 = x :: xs ∧ isIdentStart x = true ∧ xs.all isIdentCont = true := by
  intro p hp
  have := List.all_eq_true.1 keyword_table_checked p hp
  unfold kwShape at this
  simp only [Bool.and_eq_true, beq_iff_eq] at this
  obtain ⟨h1, h2⟩ := this
  refine ⟨h1, ?_⟩
  cases hp1 : p.1 with
  | nil => rw [hp1] at h2; simp at h2
  | cons x xs =>
    rw [hp1] at h2
    simp only [Bool.and_eq_true] at h2
    exact ⟨x, xs, rfl, h2.1, h2.2⟩

theorem lexemeP_keyword (s : List Char) (t : Tok) (h : (s, t) ∈ keywords) : LexemeP Stops s t := by
  obtain ⟨hl, x, xs, hs, hx, hxs⟩ := keyword_table_facts (s, t) h
  simp only at hl hs
  subst hs
  refine ⟨by simp, ?_⟩
  intro ln col off tail ht
  obtain ⟨h1, h2, h3⟩ := identStart_facts x hx
  have hsp := spanIdent_append xs tail (by simpa using hxs) ht
  simp only [List.cons_append]
  unfold lexStep
  simp only [h1, h2, h3, hx, hsp, hl, Bool.false_eq_true, if_false, if_true, Bool.false_and]

theorem lexeme_keyword (s : List Char) (t : Tok) (h : (s, t) ∈ keywords) : Lexeme s t :=
  (lexemeP_keyword s t h).weaken (fun _ ht => ht.stops)

/-! ### punctuation -/

def symbols : List (List Char × Tok) := [
  (['('], .sym ['(']),
  ([')'], .sym [')']),
  (['{'], .sym ['{']),
  (['}'], .sym ['}']),
  (['['], .sym ['[']),
  ([']'], .sym [']']),
  (['<'], .sym ['<']),
  (['>'], .sym ['>']),
  (['|'], .sym ['|']),
  (['&'], .sym ['&']),
  (['^'], .sym ['^']),
  (['!'], .sym ['!']),
  (['+'], .sym ['+']),
  (['*'], .sym ['*']),
  (['%'], .sym ['%']),
  ([':'], .sym [':']),
  ([';'], .sym [';']),
  (['.'], .sym ['.']),
  ([','], .sym [',']),
  (['='], .sym ['=']),
  (['-'], .sym ['-']),
  (['/'], .sym ['/']),
  (['<', '<'], .sym ['<', '<']),
  (['<', '='], .sym ['<', '=']),
  (['>', '>'], .sym ['>', '>']),
  (['>', '='], .sym ['>', '=']),
  (['|', ':'], .sym ['|', ':']),
  (['!', '='], .sym ['!', '=']),
  (['.', '.'], .sym ['.', '.']),
  (['=', '='], .sym ['=', '=']),
  (['-', '>'], .sym ['-', '>'])]

theorem blank_cases (c : Char) (h : isBlank c = true) : c = ' ' ∨ c = '\t' := by
  unfold isBlank at h
  simpa using h

theorem lexeme_symbol (s : List Char) (t : Tok) (h : (s, t) ∈ symbols) : Lexeme s t := by
  simp only [symbols, List.mem_cons, Prod.mk.injEq, List.mem_nil_iff, or_false] at h
  rcases h with ⟨rfl, rfl⟩ | ⟨rfl, rfl⟩ | ⟨rfl, rfl⟩ | ⟨rfl, rfl⟩ | ⟨rfl, rfl⟩ | ⟨rfl, rfl⟩ | ⟨rfl, rfl⟩ | ⟨rfl, rfl⟩ | ⟨rfl, rfl⟩ | ⟨rfl, rfl⟩ | ⟨rfl, rfl⟩ | ⟨rfl, rfl⟩ | ⟨rfl, rfl⟩ | ⟨rfl, rfl⟩ | ⟨rfl, rfl⟩ | ⟨rfl, rfl⟩ | ⟨rfl, rfl⟩ | ⟨rfl, rfl⟩ | ⟨rfl, rfl⟩ | ⟨rfl, rfl⟩ | ⟨rfl, rfl⟩ | ⟨rfl, rfl⟩ | ⟨rfl, rfl⟩ | ⟨rfl, rfl⟩ | ⟨rfl, rfl⟩ | ⟨rfl, rfl⟩ | ⟨rfl, rfl⟩ | ⟨rfl, rfl⟩ | ⟨rfl, rfl⟩ | ⟨rfl, rfl⟩ | ⟨rfl, rfl⟩ <;>
  · refine ⟨by simp, ?_⟩
    intro ln col off tail ht
    cases tail with
    | nil => rfl
    | cons c rest =>
      rcases blank_cases c (ht c rfl) with rfl | rfl <;> rfl

/-! ### plain string and character literals (printable ASCII without escapes) -/

def plainFor (quote c : Char) : Bool := c != '\\' && c != quote && (c == ' ' || isAsciiGraphic c)

theorem lexQuote_plain (quote : Char) (hq : (quote == '\\') = false) : ∀ (body : List Char) (fuel : Nat) (tail : List Char) (q : QSt),
    (∀ c ∈ body, plainFor quote c = true) → body.length < fuel →
    lexQuote quote fuel (body ++ quote :: tail) q =
      ({ bytes := (body.map Char.toNat).reverse ++ q.bytes, stop := q.stop + (body.length + 1), eol := q.idx + (body.length + 1),
         idx := q.idx + (body.length + 1), firstErr := q.firstErr, closed := true }, tail)
  | [], fuel, tail, q, _, hf => by
    obtain ⟨f, rfl⟩ : ∃ f, fuel = f + 1 := ⟨fuel - 1, by simp at hf; omega⟩
    simp [lexQuote, hq]
  | c :: body, fuel, tail, q, hp, hf => by
    obtain ⟨f, rfl⟩ : ∃ f, fuel = f + 1 := ⟨fuel - 1, by simp at hf; omega⟩
    have hc := hp c List.mem_cons_self
    unfold plainFor at hc
    simp only [Bool.and_eq_true, bne_iff_ne, ne_eq, Bool.or_eq_true, beq_iff_eq] at hc
    obtain ⟨⟨h1, h2⟩, h3⟩ := hc
    have e1 : (c == '\\') = false := by simpa using h1
    have e2 : (c == quote) = false := by simpa using h2
    have ih := lexQuote_plain quote hq body f tail
    simp only [List.cons_append, lexQuote, e1, e2, Bool.false_eq_true, if_false]
    rcases h3 with h3 | h3
    · subst h3
      simp only [beq_self_eq_true, if_true]
      rw [ih _ (fun x hx => hp x (List.mem_cons_of_mem _ hx)) (by simp at hf; omega)]
      simp [Nat.add_assoc, Nat.add_comm, Nat.add_left_comm]
    · by_cases hsp : c = ' '
      · subst hsp
        simp only [beq_self_eq_true, if_true]
        rw [ih _ (fun x hx => hp x (List.mem_cons_of_mem _ hx)) (by simp at hf; omega)]
        simp [Nat.add_assoc, Nat.add_comm, Nat.add_left_comm]
      · have e3 : (c == ' ') = false := by simpa using hsp
        simp only [e3, h3, Bool.false_eq_true, if_false, if_true]
        rw [ih _ (fun x hx => hp x (List.mem_cons_of_mem _ hx)) (by simp at hf; omega)]
        simp [Nat.add_assoc, Nat.add_comm, Nat.add_left_comm]

theorem lexemeP_string (body : List Char) (hp : ∀ c ∈ body, plainFor '"' c = true) :
    LexemeP AfterAny ('"' :: (body ++ ['"'])) (.str (body.map Char.toNat)) := by
  refine ⟨by simp, ?_⟩
  intro ln col off tail _
  have hl := lexQuote_plain '"' (by decide) body (body ++ '"' :: tail).length tail
    { stop := off + 1, eol := col + 1, idx := col + 1 } hp (by simp)
  simp only [List.cons_append, List.append_assoc, List.nil_append]
  unfold lexStep
  have f1 : ('"' == ' ' || '"' == '\t') = false := by decide
  have f2 : ('"' == '/') = false := by decide
  have f3 : isSym1 '"' = false := by decide
  have f4 : isIdentStart '"' = false := by decide
  have f5 : ('"' == '0') = false := by decide
  have f6 : isDigit '"' = false := by decide
  simp only [f1, f2, f3, f4, f5, f6, Bool.false_eq_true, if_false, Bool.false_and, beq_self_eq_true, Bool.true_or, if_true, hl]
  simp [QSt.fail, Nat.add_assoc, Nat.add_comm, Nat.add_left_comm]

theorem lexeme_string (body : List Char) (hp : ∀ c ∈ body, plainFor '"' c = true) :
    Lexeme ('"' :: (body ++ ['"'])) (.str (body.map Char.toNat)) :=
  (lexemeP_string body hp).weaken (fun _ _ => trivial)

theorem lexemeP_char (c : Char) (hp : plainFor '\'' c = true) : LexemeP AfterAny ['\'', c, '\''] (.chr c.toNat) := by
  refine ⟨by simp, ?_⟩
  intro ln col off tail _
  have hl := lexQuote_plain '\'' (by decide) [c] ([c] ++ '\'' :: tail).length tail
    { stop := off + 1, eol := col + 1, idx := col + 1 } (by simpa using hp) (by simp)
  simp only [List.cons_append, List.nil_append] at hl ⊢
  unfold lexStep
  have f1 : ('\'' == ' ' || '\'' == '\t') = false := by decide
  have f2 : ('\'' == '/') = false := by decide
  have f3 : isSym1 '\'' = false := by decide
  have f4 : isIdentStart '\'' = false := by decide
  have f5 : ('\'' == '0') = false := by decide
  have f6 : isDigit '\'' = false := by decide
  have f7 : ('\'' == '"') = false := by decide
  simp only [f1, f2, f3, f4, f5, f6, f7, Bool.false_eq_true, if_false, Bool.false_and, beq_self_eq_true, Bool.or_true, Bool.false_or, if_true, hl]
  simp [QSt.fail]

theorem lexeme_char (c : Char) (hp : plainFor '\'' c = true) : Lexeme ['\'', c, '\''] (.chr c.toNat) :=
  (lexemeP_char c hp).weaken (fun _ _ => trivial)

/-! ### punctuation followed by anything that does not combine with it -/

/-- after a one-character symbol: no character that makes a two-character symbol or a comment with it -/
def NoGlue (c : Char) (tail : List Char) : Prop :=
  ∀ y, tail.head? = some y → sym2 c y = none ∧ ¬(c = '/' ∧ y = '/')

theorem sym1_not_blank (c : Char) (h : isSym1 c = true) : (c == ' ' || c == '\t') = false := by
  have := sym1_chars c h
  simp only [List.mem_cons, List.mem_nil_iff, or_false] at this
  rcases this with rfl | rfl | rfl | rfl | rfl | rfl | rfl | rfl | rfl | rfl | rfl | rfl | rfl | rfl | rfl | rfl | rfl | rfl | rfl | rfl | rfl | rfl <;> decide

theorem lexemeP_sym1 (c : Char) (hc : isSym1 c = true) : LexemeP (NoGlue c) [c] (.sym [c]) := by
  refine ⟨by simp, ?_⟩
  intro ln col off tail ht
  have hb := sym1_not_blank c hc
  simp only [List.cons_append, List.nil_append]
  unfold lexStep
  cases tail with
  | nil => simp [hb, hc]
  | cons y rest =>
    obtain ⟨hs, hn⟩ := ht y rfl
    have hcom : (c == '/' && (y :: rest).head? == some '/') = false := by
      cases h : (c == '/' && (y :: rest).head? == some '/') with
      | false => rfl
      | true =>
        simp only [List.head?_cons, Bool.and_eq_true, beq_iff_eq, Option.some.injEq] at h
        exact absurd h hn
    simp only [hb, hcom, hc, hs, Bool.false_eq_true, if_false, if_true]
    simp

/-- the two-character symbols: anything may follow -/
def symbols2 : List (List Char × Tok) := [
  (['<', '<'], .sym ['<', '<']), (['<', '='], .sym ['<', '=']), (['>', '>'], .sym ['>', '>']), (['>', '='], .sym ['>', '=']),
  (['|', ':'], .sym ['|', ':']), (['!', '='], .sym ['!', '=']), (['.', '.'], .sym ['.', '.']), (['=', '='], .sym ['=', '=']),
  (['-', '>'], .sym ['-', '>'])]

theorem lexemeP_sym2 (s : List Char) (t : Tok) (h : (s, t) ∈ symbols2) : LexemeP AfterAny s t := by
  simp only [symbols2, List.mem_cons, Prod.mk.injEq, List.mem_nil_iff, or_false] at h
  rcases h with ⟨rfl, rfl⟩ | ⟨rfl, rfl⟩ | ⟨rfl, rfl⟩ | ⟨rfl, rfl⟩ | ⟨rfl, rfl⟩ | ⟨rfl, rfl⟩ | ⟨rfl, rfl⟩ | ⟨rfl, rfl⟩ | ⟨rfl, rfl⟩ <;>
  · refine ⟨by simp, ?_⟩
    intro ln col off tail _
    rfl

end Lex
