import PenneModel.Lex.Model
/-
  Helper lemmas about the lexer model (scanning loops, digit values).  Property theorems live in
  Props/C14.lean and Props/C09.lean.
-/
namespace Lex

theorem drop_one_add {α} (x : α) (l : List α) (n : Nat) : List.drop (1 + n) (x :: l) = List.drop n l := by
  rw [Nat.add_comm]; rfl

theorem drop_len_append {α} (a b : List α) : List.drop a.length (a ++ b) = b := by
  induction a with
  | nil => rfl
  | cons x a ih => simpa using ih

theorem drop_len2_append {α} (a b c : List α) : List.drop (a.length + b.length) (a ++ (b ++ c)) = c := by
  rw [← List.append_assoc, ← List.length_append]; exact drop_len_append _ _

/-- `cs` is `ds` with `_` separators inserted anywhere -/
inductive WithSep : List Char → List Char → Prop
  | nil : WithSep [] []
  | digit (d : Char) {ds cs : List Char} : WithSep ds cs → WithSep (d :: ds) (d :: cs)
  | sep {ds cs : List Char} : WithSep ds cs → WithSep ds ('_' :: cs)

/-- the next character (if any) cannot continue an identifier, a number or a suffix -/
def Stops (tail : List Char) : Prop := ∀ c, tail.head? = some c → isIdentCont c = false

theorem stops_nil : Stops [] := by intro c h; simp at h

theorem spanIdent_append (xs tail : List Char) (hx : ∀ c ∈ xs, isIdentCont c = true) (ht : Stops tail) :
    spanIdent (xs ++ tail) = (xs, tail) := by
  induction xs with
  | nil =>
    cases tail with
    | nil => rfl
    | cons c cs => simp [spanIdent, ht c rfl]
  | cons x xs ih =>
    have hx' : ∀ c ∈ xs, isIdentCont c = true := fun c hc => hx c (List.mem_cons_of_mem _ hc)
    simp [spanIdent, hx x (List.mem_cons_self), ih hx']

theorem isIdentCont_underscore : isIdentCont '_' = true := by decide

/-- scanning digits with separators: exactly the digits are kept, everything is consumed up to `rest`,
    provided `rest` does not start with a digit of the class or `_` -/
theorem spanDigits_append (p : Char → Bool) (ds cs rest : List Char) (h : WithSep ds cs)
    (hp : ∀ d ∈ ds, p d = true) (hu : p '_' = false)
    (hr : ∀ c, rest.head? = some c → p c = false ∧ c ≠ '_') :
    spanDigits p (cs ++ rest) = (ds, cs.length, rest) := by
  induction h with
  | nil =>
    cases rest with
    | nil => rfl
    | cons c r =>
      have := hr c rfl
      simp [spanDigits, this.1, this.2]
  | digit d h ih =>
    have hp' := fun x hx => hp x (List.mem_cons_of_mem _ hx)
    simp [spanDigits, hp d (List.mem_cons_self), ih hp']
  | sep h ih =>
    simp [spanDigits, hu, ih hp]

theorem valueOf_append (b : Nat) (xs ys : List Char) :
    valueOf b (xs ++ ys) = ys.foldl (fun acc c => acc * b + hexVal c) (valueOf b xs) := by
  simp [valueOf, List.foldl_append]

/-- on decimal digits the model's value is the standard positional value (core's `Nat.ofDigitChars`) -/
theorem valueOf_eq_ofDigitChars (ds : List Char) (h : ∀ d ∈ ds, isDigit d = true) (init : Nat) :
    ds.foldl (fun acc c => acc * 10 + hexVal c) init = Nat.ofDigitChars 10 ds init := by
  induction ds generalizing init with
  | nil => simp [Nat.ofDigitChars]
  | cons d ds ih =>
    have hd := h d (List.mem_cons_self)
    have h' := fun x hx => h x (List.mem_cons_of_mem _ hx)
    simp only [List.foldl_cons, Nat.ofDigitChars_cons]
    rw [ih h']
    congr 1
    simp [hexVal, hd, Nat.mul_comm]

theorem lexNumberNonzero_dec (c : Char) (ds cs tail : List Char) (h : WithSep ds cs)
    (hds : ∀ d ∈ ds, isDigit d = true) (ht : Stops tail) (hv : valueOf 10 (c :: ds) < max128) :
    lexNumberNonzero c (cs ++ tail) = (.dec (valueOf 10 (c :: ds)), cs.length) := by
  have hr : ∀ x, tail.head? = some x → isDigit x = false ∧ x ≠ '_' := by
    intro x hx
    have := ht x hx
    constructor
    · cases hd : isDigit x <;> simp_all [isIdentCont]
    · intro he; subst he; simp [isIdentCont, isIdentStart] at this
  have e1 := spanDigits_append isDigit ds cs tail h hds (by decide) hr
  have e2 : spanIdent tail = ([], tail) := by simpa using spanIdent_append [] tail (by simp) ht
  unfold lexNumberNonzero
  simp only [e1, e2]
  have : ¬ (valueOf 10 (c :: ds) ≥ max128) := by omega
  simp [this]

theorem suffix_table_sound : ∀ p ∈ suffixes, parseSuffix p.1 = some p.2 := by decide
theorem suffix_table_ident : ∀ p ∈ suffixes, ∀ c ∈ p.1, isIdentCont c = true := by decide
theorem suffix_table_nonempty : ∀ p ∈ suffixes, p.1 ≠ [] := by decide
theorem suffix_table_head : ∀ p ∈ suffixes, ∀ c, p.1.head? = some c → (isHex c = false ∧ c ≠ '_') := by decide

theorem lexNumberNonzero_suf (c : Char) (ds cs sfx tail : List Char) (t : Ty) (h : WithSep ds cs)
    (hds : ∀ d ∈ ds, isDigit d = true) (hs : (sfx, t) ∈ suffixes) (ht : Stops tail)
    (hv : valueOf 10 (c :: ds) < max128) :
    lexNumberNonzero c (cs ++ (sfx ++ tail)) = (.suf (valueOf 10 (c :: ds)) t, cs.length + sfx.length) := by
  have hne : sfx ≠ [] := by
    intro he; subst he
    have := suffix_table_nonempty _ hs
    simp at this
  have hr : ∀ x, (sfx ++ tail).head? = some x → isDigit x = false ∧ x ≠ '_' := by
    intro x hx
    cases sfx with
    | nil => exact absurd rfl hne
    | cons y ys =>
      simp at hx; subst hx
      have := suffix_table_head _ hs y rfl
      refine ⟨?_, this.2⟩
      cases hd : isDigit y <;> simp_all [isHex]
  have e1 := spanDigits_append isDigit ds cs (sfx ++ tail) h hds (by decide) hr
  have e2 := spanIdent_append sfx tail (suffix_table_ident _ hs) ht
  unfold lexNumberNonzero
  simp only [e1, e2]
  have : ¬ (valueOf 10 (c :: ds) ≥ max128) := by omega
  have hp := suffix_table_sound _ hs
  simp only at hp
  cases sfx with
  | nil => exact absurd rfl hne
  | cons y ys => simp [this, hp]

theorem lexNumberNonzero_overflow (c : Char) (ds cs tail : List Char) (h : WithSep ds cs)
    (hds : ∀ d ∈ ds, isDigit d = true) (ht : Stops tail) (hv : max128 ≤ valueOf 10 (c :: ds)) :
    (lexNumberNonzero c (cs ++ tail)).1 = .err 140 := by
  have hr : ∀ x, tail.head? = some x → isDigit x = false ∧ x ≠ '_' := by
    intro x hx
    have := ht x hx
    constructor
    · cases hd : isDigit x <;> simp_all [isIdentCont]
    · intro he; subst he; simp [isIdentCont, isIdentStart] at this
  have e1 := spanDigits_append isDigit ds cs tail h hds (by decide) hr
  unfold lexNumberNonzero
  simp only [e1]
  simp [hv]

theorem isHex_identCont (x : Char) (h : isHex x = true) : isIdentCont x = true := by
  simp only [isIdentCont, isIdentStart, isDigit, isHex, Bool.or_eq_true, Bool.and_eq_true, decide_eq_true_eq,
    Char.le_def, UInt32.le_iff_toNat_le] at *
  simp at *
  omega

theorem isBin_isHex (x : Char) (h : isBin x = true) : isHex x = true := by
  simp only [isBin, Bool.or_eq_true, beq_iff_eq] at h
  rcases h with rfl | rfl <;> decide

theorem stops_not_hex (tail : List Char) (ht : Stops tail) :
    ∀ x, tail.head? = some x → isHex x = false ∧ x ≠ '_' := by
  intro x hx
  have := ht x hx
  constructor
  · cases hd : isHex x
    · rfl
    · rw [isHex_identCont x hd] at this; exact absurd this (by simp)
  · intro he; subst he; simp [isIdentCont, isIdentStart] at this

theorem not_hex_not_bin (x : Char) (h : isHex x = false) : isBin x = false := by
  cases hb : isBin x
  · rfl
  · rw [isBin_isHex x hb] at h; exact absurd h (by simp)


theorem lexNumberZero_hex (ds cs tail : List Char) (h : WithSep ds cs) (hne : ds ≠ [])
    (hds : ∀ d ∈ ds, isHex d = true) (ht : Stops tail) (hv : valueOf 16 ds < max128) :
    lexNumberZero ('x' :: (cs ++ tail)) = (.bit (valueOf 16 ds), 1 + cs.length) := by
  have e2 : spanIdent tail = ([], tail) := by simpa using spanIdent_append [] tail (by simp) ht
  have e1 := spanDigits_append isHex ds cs tail h hds (by decide) (stops_not_hex tail ht)
  cases ds with
  | nil => exact absurd rfl hne
  | cons d ds =>
    unfold lexNumberZero
    simp only [e1, e2]
    simp [hv]

theorem lexNumberZero_bin (ds cs tail : List Char) (h : WithSep ds cs) (hne : ds ≠ [])
    (hds : ∀ d ∈ ds, isBin d = true) (ht : Stops tail) (hv : valueOf 2 ds < max128) :
    lexNumberZero ('b' :: (cs ++ tail)) = (.bit (valueOf 2 ds), 1 + cs.length) := by
  have e2 : spanIdent tail = ([], tail) := by simpa using spanIdent_append [] tail (by simp) ht
  have hr := stops_not_hex tail ht
  have hr' : ∀ x, tail.head? = some x → isBin x = false ∧ x ≠ '_' :=
    fun x hx => ⟨not_hex_not_bin x (hr x hx).1, (hr x hx).2⟩
  have e1 := spanDigits_append isBin ds cs tail h hds (by decide) hr'
  cases ds with
  | nil => exact absurd rfl hne
  | cons d ds =>
    unfold lexNumberZero
    simp only [e1, e2]
    simp [hv]

theorem suffix_head_not_hex (sfx tail : List Char) (t : Ty) (hs : (sfx, t) ∈ suffixes) :
    ∀ x, (sfx ++ tail).head? = some x → isHex x = false ∧ x ≠ '_' := by
  intro x hx
  cases sfx with
  | nil => have := suffix_table_nonempty _ hs; simp at this
  | cons y ys => simp at hx; subst hx; exact suffix_table_head _ hs y rfl

theorem lexNumberZero_hex_suf (ds cs sfx tail : List Char) (t : Ty) (h : WithSep ds cs) (hne : ds ≠ [])
    (hds : ∀ d ∈ ds, isHex d = true) (hs : (sfx, t) ∈ suffixes) (ht : Stops tail) (hv : valueOf 16 ds < max128) :
    lexNumberZero ('x' :: (cs ++ (sfx ++ tail))) = (.suf (valueOf 16 ds) t, 1 + cs.length + sfx.length) := by
  have hsne : sfx ≠ [] := by
    intro he; subst he; have := suffix_table_nonempty _ hs; simp at this
  have e2 := spanIdent_append sfx tail (suffix_table_ident _ hs) ht
  have e1 := spanDigits_append isHex ds cs (sfx ++ tail) h hds (by decide) (suffix_head_not_hex sfx tail t hs)
  have hp := suffix_table_sound _ hs
  simp only at hp
  cases ds with
  | nil => exact absurd rfl hne
  | cons d ds =>
    unfold lexNumberZero
    simp only [e1, e2]
    simp [hv, hp, hsne]

theorem lexNumberZero_bin_suf (ds cs sfx tail : List Char) (t : Ty) (h : WithSep ds cs) (hne : ds ≠ [])
    (hds : ∀ d ∈ ds, isBin d = true) (hs : (sfx, t) ∈ suffixes) (ht : Stops tail) (hv : valueOf 2 ds < max128) :
    lexNumberZero ('b' :: (cs ++ (sfx ++ tail))) = (.suf (valueOf 2 ds) t, 1 + cs.length + sfx.length) := by
  have hsne : sfx ≠ [] := by
    intro he; subst he; have := suffix_table_nonempty _ hs; simp at this
  have e2 := spanIdent_append sfx tail (suffix_table_ident _ hs) ht
  have hr := suffix_head_not_hex sfx tail t hs
  have hr' : ∀ x, (sfx ++ tail).head? = some x → isBin x = false ∧ x ≠ '_' :=
    fun x hx => ⟨not_hex_not_bin x (hr x hx).1, (hr x hx).2⟩
  have e1 := spanDigits_append isBin ds cs (sfx ++ tail) h hds (by decide) hr'
  have hp := suffix_table_sound _ hs
  simp only at hp
  cases ds with
  | nil => exact absurd rfl hne
  | cons d ds =>
    unfold lexNumberZero
    simp only [e1, e2]
    simp [hv, hp, hsne]

/-- literals of 129 bits or more are rejected whatever follows the digits -/
theorem lexNumberZero_hex_overflow (ds cs tail : List Char) (h : WithSep ds cs) (hne : ds ≠ [])
    (hds : ∀ d ∈ ds, isHex d = true) (ht : Stops tail) (hv : max128 ≤ valueOf 16 ds) :
    (lexNumberZero ('x' :: (cs ++ tail))).1 = .err 140 := by
  have e1 := spanDigits_append isHex ds cs tail h hds (by decide) (stops_not_hex tail ht)
  cases ds with
  | nil => exact absurd rfl hne
  | cons d ds =>
    unfold lexNumberZero
    simp only [e1]
    have : ¬ valueOf 16 (d :: ds) < max128 := by omega
    simp [this]

end Lex
