/-
  C14, the statement as a whole: ANY sequence of tokens, each in a legal spelling, separated by any
  blanks and optionally followed by a `//` comment, is split by the lexer model into exactly those
  tokens, with spans covering exactly each token's characters.

  `Lexeme s t` — the spelling `s`, followed by the end of the line or a blank, is cut off as exactly
  the token `t` spanning exactly `s`, at whatever line / column / offset it stands.  The theorems of
  Props/C14.lean and this file provide `Lexeme` for every spelling of the integer literals (every value,
  separator placement, suffix), identifiers, builtins, keywords, type names, punctuation and plain
  string / character literals.  `lexLine_sequence` composes them: a whole line.
-/
import PenneModel.Lex.Lemmas

namespace Lex

def isBlank (c : Char) : Bool := c == ' ' || c == '\t'

/-- the end of the line, or a blank -/
def BlankStart (tail : List Char) : Prop := ∀ c, tail.head? = some c → isBlank c = true

theorem BlankStart.stops {tail : List Char} (h : BlankStart tail) : Stops tail := by
  intro c hc
  have := h c hc
  unfold isBlank at this
  simp only [Bool.or_eq_true, beq_iff_eq] at this
  rcases this with rfl | rfl <;> decide

/-- `s` is a spelling of `t` whenever what follows satisfies `P` -/
def LexemeP (P : List Char → Prop) (s : List Char) (t : Tok) : Prop :=
  s ≠ [] ∧ ∀ (ln col off : Nat) (tail : List Char), P tail →
    lexStep ln col off (s ++ tail) = some ([{ tok := t, start := off, stop := off + s.length, line := ln, col := col }], tail)

/-- the common case: followed by the end of the line or a blank -/
def Lexeme (s : List Char) (t : Tok) : Prop := LexemeP BlankStart s t

theorem LexemeP.weaken {P Q : List Char → Prop} {s : List Char} {t : Tok} (h : LexemeP P s t) (hq : ∀ tail, Q tail → P tail) :
    LexemeP Q s t :=
  ⟨h.1, fun ln col off tail ht => h.2 ln col off tail (hq tail ht)⟩

/-- a token in some spelling, the blanks after it (possibly none), and what the spelling needs of whatever follows it -/
structure Item where
  spelling : List Char
  tok : Tok
  blanks : List Char
  after : List Char → Prop := BlankStart

def render : List Item → List Char
  | [] => []
  | it :: rest => it.spelling ++ it.blanks ++ render rest

/-- the tokens of a rendered line that starts at column `col`, source offset `off` -/
def expected (ln : Nat) : Nat → Nat → List Item → List LTok
  | _, _, [] => []
  | col, off, it :: rest =>
    { tok := it.tok, start := off, stop := off + it.spelling.length, line := ln, col := col } ::
      expected ln (col + it.spelling.length + it.blanks.length) (off + it.spelling.length + it.blanks.length) rest

/-- what may end a line: nothing, or a comment -/
def IsTrailer (tr : List Char) : Prop := tr = [] ∨ ∃ rest, tr = '/' :: '/' :: rest

/-- every item is a lexeme for what follows it: its blanks (possibly none), the rest of the line, the trailer -/
def Good (tr : List Char) : List Item → Prop
  | [] => True
  | it :: rest => LexemeP it.after it.spelling it.tok ∧ (∀ c ∈ it.blanks, isBlank c = true) ∧
      it.after (it.blanks ++ (render rest ++ tr)) ∧ Good tr rest

theorem blankStart_nil : BlankStart [] := by intro c h; simp at h
theorem blankStart_cons (c : Char) (rest : List Char) (h : isBlank c = true) : BlankStart (c :: rest) := by
  intro c' h'; simp only [List.head?_cons, Option.some.injEq] at h'; subst h'; exact h

theorem lexStep_blank (ln col off : Nat) (c : Char) (cs : List Char) (h : isBlank c = true) :
    lexStep ln col off (c :: cs) = some ([], cs) := by
  unfold isBlank at h
  unfold lexStep
  simp only [h, if_true]

theorem skip_blanks (ln : Nat) : ∀ (ws : List Char) (fuel col off : Nat) (rest : List Char),
    (∀ c ∈ ws, isBlank c = true) → ws.length < fuel →
    lexLineAux ln fuel col off (ws ++ rest) = lexLineAux ln (fuel - ws.length) (col + ws.length) (off + ws.length) rest
  | [], fuel, col, off, rest, _, _ => by simp
  | w :: ws, fuel, col, off, rest, hb, hf => by
    obtain ⟨f, rfl⟩ : ∃ f, fuel = f + 1 := ⟨fuel - 1, by simp only [List.length_cons] at hf; omega⟩
    simp only [List.length_cons] at hf
    have ih := skip_blanks ln ws f (col + 1) (off + 1) rest (fun c hc => hb c (List.mem_cons_of_mem _ hc)) (by omega)
    simp only [List.cons_append, lexLineAux, lexStep_blank ln col off w (ws ++ rest) (hb w List.mem_cons_self), List.nil_append,
      List.length_cons]
    have e : (ws ++ rest).length + 1 - (ws ++ rest).length = 1 := by omega
    rw [e, ih]
    congr 1 <;> omega

theorem lexLineAux_comment (ln fuel col off : Nat) (rest : List Char) :
    lexLineAux ln fuel col off ('/' :: '/' :: rest) = [] := by
  cases fuel with
  | zero => rfl
  | succ f =>
    have : lexStep ln col off ('/' :: '/' :: rest) = none := by
      unfold lexStep; simp
    simp [lexLineAux, this]

theorem lexLineAux_trailer (ln fuel col off : Nat) (tr : List Char) (h : IsTrailer tr) :
    lexLineAux ln fuel col off tr = [] := by
  rcases h with rfl | ⟨rest, rfl⟩
  · cases fuel <;> rfl
  · exact lexLineAux_comment ln fuel col off rest

theorem blankStart_of_blanks (ws rest : List Char) (hb : ∀ c ∈ ws, isBlank c = true) (hne : ws ≠ []) : BlankStart (ws ++ rest) := by
  intro c hc
  cases ws with
  | nil => exact absurd rfl hne
  | cons w ws' =>
    simp only [List.cons_append, List.head?_cons, Option.some.injEq] at hc
    subst hc
    exact hb _ List.mem_cons_self

/-- **a whole line**: tokens in any legal spelling, separated by any blanks, optionally followed by a comment -/
theorem lexLineAux_sequence (ln : Nat) (tr : List Char) (htr : IsTrailer tr) : ∀ (items : List Item) (fuel col off : Nat),
    Good tr items → (render items ++ tr).length < fuel →
    lexLineAux ln fuel col off (render items ++ tr) = expected ln col off items
  | [], fuel, col, off, _, _ => by
    simp only [render, List.nil_append, expected]
    exact lexLineAux_trailer ln fuel col off tr htr
  | it :: rest, fuel, col, off, hg, hf => by
    obtain ⟨hlex, hblank, htail0, hrest⟩ := hg
    obtain ⟨hne, hstep⟩ := hlex
    obtain ⟨f, rfl⟩ : ∃ f, fuel = f + 1 := ⟨fuel - 1, by omega⟩
    have hslen : 1 ≤ it.spelling.length := by
      cases h : it.spelling with
      | nil => exact absurd h hne
      | cons a b => simp
    simp only [render, List.length_append] at hf
    have htail : it.after (it.blanks ++ render rest ++ tr) := by
      rw [List.append_assoc]; exact htail0
    have hs := hstep ln col off (it.blanks ++ render rest ++ tr) htail
    have e1 : render (it :: rest) ++ tr = it.spelling ++ (it.blanks ++ render rest ++ tr) := by
      simp only [render, List.append_assoc]
    rw [e1]
    cases hsp : it.spelling with
    | nil => exact absurd hsp hne
    | cons a b =>
      rw [hsp] at hs hslen hf
      simp only [List.length_cons] at hf hslen
      simp only [List.cons_append] at hs ⊢
      rw [lexLineAux, hs]
      simp only [List.length_cons, List.length_append, List.singleton_append, expected]
      have e2 : b.length + ((it.blanks.length + (render rest).length) + tr.length) + 1 - ((it.blanks.length + (render rest).length) + tr.length)
          = b.length + 1 := by omega
      rw [e2]
      have hfb : it.blanks.length < f := by
        omega
      rw [List.append_assoc, skip_blanks ln it.blanks f _ _ (render rest ++ tr) hblank hfb]
      rw [lexLineAux_sequence ln tr htr rest _ _ _ hrest (by simp only [List.length_append] at hf ⊢; omega)]
      rw [hsp]
      simp only [List.length_cons]
      intro h; cases h

/-- the same for `lex_line`, with leading blanks (indentation) -/
theorem lexLine_sequence (ln off : Nat) (indent : List Char) (items : List Item) (tr : List Char) (htr : IsTrailer tr)
    (hi : ∀ c ∈ indent, isBlank c = true) (hg : Good tr items) :
    lexLine ln off (indent ++ (render items ++ tr)) = expected ln indent.length (off + indent.length) items := by
  unfold lexLine
  rw [skip_blanks ln indent _ 0 off (render items ++ tr) hi (by simp only [List.length_append]; omega)]
  rw [lexLineAux_sequence ln tr htr items _ _ _ hg (by simp only [List.length_append]; omega)]
  simp

/-! ### whole sources: lines ended by `\n` or `\r\n` -/

structure LineSpec where
  indent : List Char
  items : List Item
  trailer : List Char
  /-- `true`: the line ends with `\r\n` -/
  crlf : Bool

def LineSpec.text (l : LineSpec) : List Char := l.indent ++ (render l.items ++ l.trailer)
def LineSpec.ending (l : LineSpec) : List Char := if l.crlf then ['\r', '\n'] else ['\n']

def sourceOf : List LineSpec → List Char
  | [] => []
  | l :: ls => l.text ++ l.ending ++ sourceOf ls

def expectedLines : Nat → Nat → List LineSpec → List LTok
  | _, _, [] => []
  | ln, off, l :: ls =>
    expected ln l.indent.length (off + l.indent.length) l.items ++
      expectedLines (ln + 1) (off + l.text.length + l.ending.length) ls

structure LineSpec.OK (l : LineSpec) : Prop where
  trailer : IsTrailer l.trailer
  indent : ∀ c ∈ l.indent, isBlank c = true
  good : Good l.trailer l.items
  /-- the text of a line has no line break in it, and a line that ends in `\n` alone does not end with a carriage return -/
  noNewline : '\n' ∉ l.text
  noCR : l.crlf = false → l.text.getLast? ≠ some '\r'

theorem splitLines_step (c : Char) (cs acc : List Char) (h : c ≠ '\n') : splitLines (c :: cs) acc = splitLines cs (c :: acc) := by
  cases cs <;> simp [splitLines, h]

theorem splitLines_text : ∀ (text rest acc : List Char), '\n' ∉ text →
    splitLines (text ++ '\n' :: rest) acc =
      (match text.reverse ++ acc with | '\r' :: a => (a.reverse, 2) | a => (a.reverse, 1)) :: splitLines rest []
  | [], rest, acc, _ => by
    cases acc with
    | nil => simp [splitLines]
    | cons a as => rfl
  | c :: text, rest, acc, h => by
    have hc : c ≠ '\n' := fun he => h (he ▸ List.mem_cons_self)
    have ht : '\n' ∉ text := fun hm => h (List.mem_cons_of_mem _ hm)
    rw [List.cons_append, splitLines_step c _ acc hc, splitLines_text text rest (c :: acc) ht]
    simp

theorem splitLines_line (l : LineSpec) (h : l.OK) (rest : List Char) :
    splitLines (l.text ++ l.ending ++ rest) [] = (l.text, l.ending.length) :: splitLines rest [] := by
  unfold LineSpec.ending
  cases hc : l.crlf with
  | false =>
    simp only [Bool.false_eq_true, if_false, List.append_assoc, List.cons_append, List.nil_append]
    rw [splitLines_text l.text rest [] h.noNewline]
    simp only [List.append_nil, List.length_cons, List.length_nil]
    have := h.noCR hc
    split
    · rename_i a he
      have h2 := congrArg List.head? he
      rw [List.head?_reverse] at h2
      exact absurd h2 this
    · simp
  | true =>
    simp only [if_true, List.append_assoc, List.cons_append, List.nil_append]
    have h2 : '\n' ∉ l.text ++ ['\r'] := by
      intro hm
      rcases List.mem_append.1 hm with hm | hm
      · exact h.noNewline hm
      · simp at hm
    have := splitLines_text (l.text ++ ['\r']) rest [] h2
    simp only [List.append_assoc, List.cons_append, List.nil_append] at this
    rw [this]
    simp

theorem lexLines_source : ∀ (ls : List LineSpec) (ln off : Nat), (∀ l ∈ ls, l.OK) →
    lexLines ln off (splitLines (sourceOf ls) []) = expectedLines ln off ls
  | [], ln, off, _ => by simp [sourceOf, splitLines, lexLines, expectedLines]
  | l :: ls, ln, off, h => by
    have hl := h l List.mem_cons_self
    simp only [sourceOf]
    rw [splitLines_line l hl, lexLines, expectedLines]
    rw [lexLines_source ls (ln + 1) _ (fun x hx => h x (List.mem_cons_of_mem _ hx))]
    have := lexLine_sequence ln off l.indent l.items l.trailer hl.trailer hl.indent hl.good
    unfold LineSpec.text
    rw [this]

/-- **a whole source**: any number of lines, each made of tokens in legal spellings with any blanks, an optional comment, and
    ended by `\n` or `\r\n`: exactly those tokens, on the right lines, with the right source offsets -/
theorem lex_source (ls : List LineSpec) (hne : ls ≠ []) (h : ∀ l ∈ ls, l.OK) : lex (sourceOf ls) = expectedLines 1 0 ls := by
  unfold lex
  have : (sourceOf ls).isEmpty = false := by
    cases ls with
    | nil => exact absurd rfl hne
    | cons l rest =>
      simp only [sourceOf, LineSpec.ending]
      cases l.crlf <;> simp
  rw [this]
  simp only [Bool.false_eq_true, if_false]
  exact lexLines_source ls 1 0 h

/-! ### layout does not matter -/

theorem expected_toks (ln : Nat) : ∀ (items : List Item) (col off : Nat),
    (expected ln col off items).map (·.tok) = items.map (·.tok)
  | [], _, _ => rfl
  | it :: rest, col, off => by simp [expected, expected_toks ln rest]

theorem expectedLines_toks : ∀ (ls : List LineSpec) (ln off : Nat),
    (expectedLines ln off ls).map (·.tok) = (ls.map (fun l => l.items.map (·.tok))).flatten
  | [], _, _ => rfl
  | l :: ls, ln, off => by
    simp [expectedLines, expected_toks, expectedLines_toks ls]

/-- **formatting never changes the tokens**: two sources that spell the same tokens — whatever their indentation, blanks,
    comments, line breaks (LF or CRLF) and the distribution of the tokens over lines — lex to the same token sequence -/
theorem layout_irrelevant (ls ls' : List LineSpec) (hne : ls ≠ []) (hne' : ls' ≠ []) (h : ∀ l ∈ ls, l.OK) (h' : ∀ l ∈ ls', l.OK)
    (hsame : (ls.map (fun l => l.items.map (·.tok))).flatten = (ls'.map (fun l => l.items.map (·.tok))).flatten) :
    (lex (sourceOf ls)).map (·.tok) = (lex (sourceOf ls')).map (·.tok) := by
  rw [lex_source ls hne h, lex_source ls' hne' h', expectedLines_toks, expectedLines_toks, hsame]

end Lex
