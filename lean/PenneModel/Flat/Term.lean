/-
  Termination of the parser model, by the same reflection as in Check.lean.

  The interpreter spends one unit of fuel per call, and loops are calls, so "enough fuel" means a bound
  on the depth of the call stack.  A table is *ranked* by `rank : nonterminal → Nat` when every call
  either happens after the calling nonterminal has consumed a token, or goes to a nonterminal of
  strictly smaller rank (`walk`); `dc nt` declares that `nt` consumes at least one token whenever it
  ends normally, which `walk` also verifies.  Then a stack never holds more than `R` frames per cursor
  position (`R` > every rank), and `R · (tokens left) + rank + 1` units of fuel are never exhausted
  (`runNT_total`).  For the real parser this is the argument that every loop iteration and every
  recursive descent consumes input.
-/
import PenneModel.Flat.Check

namespace Flat

def joinFlag (a b : Option Bool) : Option Bool :=
  match a, b with
  | some x, some y => some (x && y)
  | _, _ => none

/-- `walk rank dc me p c`: `c` = "a token has been consumed since `me` was entered"; result: the same
    knowledge after `p` ended normally, or `none` when a call is neither preceded by consumption nor
    to a smaller rank -/
def walk (rank : Nat → Nat) (dc : Nat → Bool) (me : Nat) : Prog → Bool → Option Bool
  | .skip, c => some c
  | .push _, c => some c
  | .seq a b, c =>
    match walk rank dc me a c with
    | some c1 => walk rank dc me b c1
    | none => none
  | .take k, _ => walk rank dc me k true
  | .ifLast _ t e, c => joinFlag (walk rank dc me t c) (walk rank dc me e c)
  | .ifPeek _ t e, c => joinFlag (walk rank dc me t c) (walk rank dc me e c)
  | .opt _ t e, c => joinFlag (walk rank dc me t true) (walk rank dc me e c)
  | .call nt _, c => if c || decide (rank nt < rank me) then some (c || dc nt) else none
  | .ifZero t e, c => joinFlag (walk rank dc me t c) (walk rank dc me e c)
  | .fail _ _, _ => some true
  | .reserve _ q, c => walk rank dc me q c
  | .setPrivate, c => some c
  | .setPublic, c => some c

def checkTerm (rank : Nat → Nat) (dc : Nat → Bool) (tbl : Nat → Prog) (nt : Nat) : Bool :=
  match walk rank dc nt (tbl nt) false with
  | some c' => !dc nt || c'
  | none => false

section Term
variable (ts : List Kind)

/-- what a nonterminal run with fuel `fuel` guarantees: it does not run out of fuel, the cursor only moves
    forward, and a normal end leaves the cursor inside (and past the start, if `dc`) -/
def CalleeT (E R : Nat) (rank : Nat → Nat) (dc : Nat → Bool) (fuel : Nat) (callee : Nat → Nat → PS → Res × PS) : Prop :=
  ∀ nt p s, s.cur ≤ E → R * (E - s.cur) + rank nt + 1 ≤ fuel →
    (callee nt p s).1 ≠ .fuel ∧ s.cur ≤ (callee nt p s).2.cur ∧ (callee nt p s).2.cur ≤ E + 1 ∧
    ((callee nt p s).1 = .ok → (dc nt = true → s.cur < (callee nt p s).2.cur) ∧ (callee nt p s).2.cur ≤ E)

theorem joinFlag_some {a b : Option Bool} {c : Bool} (h : joinFlag a b = some c) :
    ∃ x y, a = some x ∧ b = some y ∧ c = (x && y) := by
  cases a <;> cases b <;> simp [joinFlag] at h
  exact ⟨_, _, rfl, rfl, h.symm⟩

theorem failsOnEos_ne_fuel (callee : Nat → Nat → PS → Res × PS) :
    ∀ (p : Prog) (param : Nat) (s : PS), failsOnEos p = true → s.last = .EndOfSource →
      (runProg ts callee p param s).1 ≠ .fuel := by
  intro p
  induction p with
  | fail e back => intro param s _ _; simp [runProg]
  | ifLast ks t e iht ihe =>
    intro param s hf hl
    simp only [failsOnEos] at hf
    simp only [runProg]
    by_cases he : hasEos ks = true
    · simp only [he, if_true, Bool.and_eq_true] at hf
      split
      · exact iht param s hf.1 hl
      · exact ihe param s hf.2 hl
    · have he' : hasEos ks = false := by simpa using he
      simp only [he'] at hf
      have : ks.contains s.last = false := by
        rw [hl]; simpa [hasEos] using he'
      simp only [this]
      exact ihe param s hf hl
  | seq a b iha _ =>
    intro param s hf hl
    simp only [failsOnEos] at hf
    have h1 := iha param s hf hl
    have h2 := failsOnEos_run ts callee a param s hf hl
    simp only [runProg]
    cases hr : runProg ts callee a param s with
    | mk r1 s1 =>
      rw [hr] at h1 h2
      cases r1 with
      | ok => exact absurd rfl h2.1
      | err e pos => simp
      | fuel => exact absurd rfl h1
  | skip => intro _ _ hf; simp [failsOnEos] at hf
  | push _ => intro _ _ hf; simp [failsOnEos] at hf
  | take _ _ => intro _ _ hf; simp [failsOnEos] at hf
  | ifPeek _ _ _ _ _ => intro _ _ hf; simp [failsOnEos] at hf
  | opt _ _ _ _ _ => intro _ _ hf; simp [failsOnEos] at hf
  | call _ _ => intro _ _ hf; simp [failsOnEos] at hf
  | ifZero _ _ _ _ => intro _ _ hf; simp [failsOnEos] at hf
  | reserve _ _ _ => intro _ _ hf; simp [failsOnEos] at hf
  | setPrivate => intro _ _ hf; simp [failsOnEos] at hf
  | setPublic => intro _ _ hf; simp [failsOnEos] at hf

theorem walk_sound (E R : Nat) (hE : ts.getD E .EndOfSource = .EndOfSource) (rank : Nat → Nat) (dc : Nat → Bool)
    (hR : ∀ nt, rank nt < R) (fuel : Nat) (callee : Nat → Nat → PS → Res × PS)
    (hc : CalleeT E R rank dc fuel callee) (me : Nat) (c0 : Nat)
    (hbudget : R * (E - c0) + rank me ≤ fuel) :
    ∀ (p : Prog) (c c' : Bool) (param : Nat) (s : PS), curOK p = true → walk rank dc me p c = some c' →
      c0 ≤ s.cur → (c = true → c0 < s.cur) → s.cur ≤ E →
      (runProg ts callee p param s).1 ≠ .fuel ∧ s.cur ≤ (runProg ts callee p param s).2.cur ∧
      (runProg ts callee p param s).2.cur ≤ E + 1 ∧
      ((runProg ts callee p param s).1 = .ok →
        (c' = true → c0 < (runProg ts callee p param s).2.cur) ∧ (runProg ts callee p param s).2.cur ≤ E) := by
  intro p
  induction p with
  | skip =>
    intro c c' param s _ hw h0 hc0 hs
    simp only [walk, Option.some.injEq] at hw
    subst hw
    simp only [runProg]
    exact ⟨by simp, Nat.le_refl _, by omega, fun _ => ⟨hc0, hs⟩⟩
  | push tags =>
    intro c c' param s _ hw h0 hc0 hs
    simp only [walk, Option.some.injEq] at hw
    subst hw
    simp only [runProg]
    exact ⟨by simp, Nat.le_refl _, by omega, fun _ => ⟨hc0, hs⟩⟩
  | seq a b iha ihb =>
    intro c c' param s hk hw h0 hc0 hs
    simp only [curOK, Bool.and_eq_true] at hk
    simp only [walk] at hw
    cases hwa : walk rank dc me a c with
    | none => simp [hwa] at hw
    | some c1 =>
      simp only [hwa] at hw
      have ha := iha c c1 param s hk.1 hwa h0 hc0 hs
      simp only [runProg]
      cases hr : runProg ts callee a param s with
      | mk r1 s1 =>
        rw [hr] at ha
        obtain ⟨hnf, hmono, hup, hok⟩ := ha
        cases r1 with
        | ok =>
          simp only
          obtain ⟨hc1, hs1⟩ := hok rfl
          have hm : s.cur ≤ s1.cur := hmono
          have hb := ihb c1 c' param s1 hk.2 hw (by omega) hc1 hs1
          obtain ⟨hnf2, hmono2, hup2, hok2⟩ := hb
          exact ⟨hnf2, by omega, hup2, hok2⟩
        | err e pos => exact ⟨by simp, hmono, hup, fun h => Res.noConfusion h⟩
        | fuel => exact absurd rfl hnf
  | take k ih =>
    intro c c' param s hk hw h0 hc0 hs
    simp only [curOK, Bool.and_eq_true] at hk
    simp only [walk] at hw
    simp only [runProg]
    by_cases hp : peek ts s = .EndOfSource
    · have hrun := failsOnEos_run ts callee k param (advance ts s) hk.1 (by simp [advance, hp])
      have hnf := failsOnEos_ne_fuel ts callee k param (advance ts s) hk.1 (by simp [advance, hp])
      have h1 : (advance ts s).cur = s.cur + 1 := rfl
      refine ⟨hnf, ?_, ?_, fun h => absurd h hrun.1⟩
      · rw [hrun.2]; omega
      · rw [hrun.2]; omega
    · have hlt := peek_lt ts hE hs hp
      have h1 : (advance ts s).cur = s.cur + 1 := rfl
      have := ih true c' param (advance ts s) hk.2 hw (by omega) (fun _ => by omega) (by omega)
      obtain ⟨hnf, hmono, hup, hok⟩ := this
      exact ⟨hnf, by omega, hup, hok⟩
  | ifLast ks t e iht ihe =>
    intro c c' param s hk hw h0 hc0 hs
    simp only [curOK, Bool.and_eq_true] at hk
    simp only [walk] at hw
    obtain ⟨x, y, hx, hy, hxy⟩ := joinFlag_some hw
    simp only [runProg]
    split
    · have := iht c x param s hk.1 hx h0 hc0 hs
      exact ⟨this.1, this.2.1, this.2.2.1, fun h => ⟨fun hc' => (this.2.2.2 h).1 (by rw [hxy] at hc'; simp only [Bool.and_eq_true] at hc'; exact hc'.1), (this.2.2.2 h).2⟩⟩
    · have := ihe c y param s hk.2 hy h0 hc0 hs
      exact ⟨this.1, this.2.1, this.2.2.1, fun h => ⟨fun hc' => (this.2.2.2 h).1 (by rw [hxy] at hc'; simp only [Bool.and_eq_true] at hc'; exact hc'.2), (this.2.2.2 h).2⟩⟩
  | ifPeek ks t e iht ihe =>
    intro c c' param s hk hw h0 hc0 hs
    simp only [curOK, Bool.and_eq_true] at hk
    simp only [walk] at hw
    obtain ⟨x, y, hx, hy, hxy⟩ := joinFlag_some hw
    simp only [runProg]
    split
    · have := iht c x param s hk.1 hx h0 hc0 hs
      exact ⟨this.1, this.2.1, this.2.2.1, fun h => ⟨fun hc' => (this.2.2.2 h).1 (by rw [hxy] at hc'; simp only [Bool.and_eq_true] at hc'; exact hc'.1), (this.2.2.2 h).2⟩⟩
    · have := ihe c y param s hk.2 hy h0 hc0 hs
      exact ⟨this.1, this.2.1, this.2.2.1, fun h => ⟨fun hc' => (this.2.2.2 h).1 (by rw [hxy] at hc'; simp only [Bool.and_eq_true] at hc'; exact hc'.2), (this.2.2.2 h).2⟩⟩
  | opt ks t e iht ihe =>
    intro c c' param s hk hw h0 hc0 hs
    simp only [curOK, Bool.and_eq_true, Bool.not_eq_true'] at hk
    simp only [walk] at hw
    obtain ⟨x, y, hx, hy, hxy⟩ := joinFlag_some hw
    simp only [runProg]
    split
    · rename_i hm
      have hp : peek ts s ≠ .EndOfSource := not_mem_of_hasEos hk.1.1 hm
      have hlt := peek_lt ts hE hs hp
      have h1 : (advance ts s).cur = s.cur + 1 := rfl
      have := iht true x param (advance ts s) hk.1.2 hx (by omega) (fun _ => by omega) (by omega)
      exact ⟨this.1, by have := this.2.1; omega, this.2.2.1,
        fun h => ⟨fun hc' => (this.2.2.2 h).1 (by rw [hxy] at hc'; simp only [Bool.and_eq_true] at hc'; exact hc'.1), (this.2.2.2 h).2⟩⟩
    · have := ihe c y param s hk.2 hy h0 hc0 hs
      exact ⟨this.1, this.2.1, this.2.2.1, fun h => ⟨fun hc' => (this.2.2.2 h).1 (by rw [hxy] at hc'; simp only [Bool.and_eq_true] at hc'; exact hc'.2), (this.2.2.2 h).2⟩⟩
  | call nt arg =>
    intro c c' param s _ hw h0 hc0 hs
    simp only [walk] at hw
    split at hw
    · rename_i hcond
      simp only [Option.some.injEq] at hw
      simp only [runProg]
      have hRnt := hR nt
      have hfuel : R * (E - s.cur) + rank nt + 1 ≤ fuel := by
        simp only [Bool.or_eq_true, decide_eq_true_eq] at hcond
        rcases hcond with hc1 | hrk
        · have hlt := hc0 hc1
          have h1 : E - s.cur + 1 ≤ E - c0 := by omega
          have h2 : R * (E - s.cur) + R ≤ R * (E - c0) := by
            have := Nat.mul_le_mul_left R h1
            rw [Nat.mul_add, Nat.mul_one] at this
            exact this
          omega
        · have h1 : E - s.cur ≤ E - c0 := by omega
          have h2 : R * (E - s.cur) ≤ R * (E - c0) := Nat.mul_le_mul_left R h1
          omega
      obtain ⟨hnf, hmono, hup, hok⟩ := hc nt (arg.eval param) s hs hfuel
      refine ⟨hnf, hmono, hup, fun h => ⟨fun hc' => ?_, (hok h).2⟩⟩
      subst hw
      simp only [Bool.or_eq_true] at hc'
      rcases hc' with h1 | h1
      · have := hc0 h1; omega
      · have := (hok h).1 h1; omega
    · simp at hw
  | ifZero t e iht ihe =>
    intro c c' param s hk hw h0 hc0 hs
    simp only [curOK, Bool.and_eq_true] at hk
    simp only [walk] at hw
    obtain ⟨x, y, hx, hy, hxy⟩ := joinFlag_some hw
    simp only [runProg]
    split
    · have := iht c x param s hk.1 hx h0 hc0 hs
      exact ⟨this.1, this.2.1, this.2.2.1, fun h => ⟨fun hc' => (this.2.2.2 h).1 (by rw [hxy] at hc'; simp only [Bool.and_eq_true] at hc'; exact hc'.1), (this.2.2.2 h).2⟩⟩
    · have := ihe c y param s hk.2 hy h0 hc0 hs
      exact ⟨this.1, this.2.1, this.2.2.1, fun h => ⟨fun hc' => (this.2.2.2 h).1 (by rw [hxy] at hc'; simp only [Bool.and_eq_true] at hc'; exact hc'.2), (this.2.2.2 h).2⟩⟩
  | fail e back =>
    intro c c' param s _ _ h0 hc0 hs
    simp only [runProg]
    exact ⟨by simp, Nat.le_refl _, by omega, fun h => Res.noConfusion h⟩
  | reserve ks q ih =>
    intro c c' param s hk hw h0 hc0 hs
    simp only [curOK] at hk
    simp only [walk] at hw
    have := ih c c' param { s with lim := min s.lim (findNext ts (fun k => ks.contains k) s.cur) } hk hw h0 hc0 hs
    simp only [runProg]
    exact this
  | setPrivate =>
    intro c c' param s _ hw h0 hc0 hs
    simp only [walk, Option.some.injEq] at hw
    subst hw
    simp only [runProg]
    split <;> exact ⟨by simp, Nat.le_refl _, by simp only; omega, fun _ => ⟨hc0, hs⟩⟩
  | setPublic =>
    intro c c' param s _ hw h0 hc0 hs
    simp only [walk, Option.some.injEq] at hw
    subst hw
    simp only [runProg]
    split <;> exact ⟨by simp, Nat.le_refl _, by simp only; omega, fun _ => ⟨hc0, hs⟩⟩

/-- a ranked, cursor-safe table never runs out of fuel when given `R · (tokens left) + rank + 1` units -/
theorem runNT_total (E R : Nat) (hE : ts.getD E .EndOfSource = .EndOfSource) (rank : Nat → Nat) (dc : Nat → Bool)
    (hR : ∀ nt, rank nt < R) (tbl : Nat → Prog) (hcur : ∀ nt, curOK (tbl nt) = true)
    (hchk : ∀ nt, checkTerm rank dc tbl nt = true) : ∀ fuel, CalleeT E R rank dc fuel (runNT ts tbl fuel) := by
  intro fuel
  induction fuel with
  | zero => intro nt p s _ hf; omega
  | succ fuel ih =>
    intro nt p s hs hf
    have hck := hchk nt
    simp only [checkTerm] at hck
    cases hw : walk rank dc nt (tbl nt) false with
    | none => simp [hw] at hck
    | some c' =>
      simp only [hw, Bool.or_eq_true, Bool.not_eq_true'] at hck
      have := walk_sound ts E R hE rank dc hR fuel (runNT ts tbl fuel) ih nt s.cur (by omega)
        (tbl nt) false c' p s (hcur nt) hw (Nat.le_refl _) (by simp) hs
      simp only [runNT]
      refine ⟨this.1, this.2.1, this.2.2.1, fun h => ⟨fun hd => ?_, (this.2.2.2 h).2⟩⟩
      rcases hck with hck | hck
      · rw [hd] at hck; simp at hck
      · exact (this.2.2.2 h).1 hck

end Term

end Flat
