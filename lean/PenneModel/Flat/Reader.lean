/-
  The consumer of the flat layout: `read*` follows `print_xml` (src/delta/parser/parse_tree_xml.rs) —
  it looks at a node and the nodes just before it, follows the node ids stored in `Item`, `List`,
  `ListItem`, … — but returns the syntax tree instead of text.  `read_enc_*`: reading the layout of
  a tree gives the tree back, wherever the layout sits in the buffer (C16: the flat tree the parser
  builds encodes the abstract syntax faithfully, and what the consumer pattern-matches is what the
  producer pushed).
-/
import PenneModel.Flat.Layout
import PenneModel.Syn.Canon

namespace Layout
open Flat (Tag)
open Syn

/-- the buffer `A` holds the nodes `ns` from index `base` on -/
def Agrees (A : List FN) (base : Nat) (ns : List FN) : Prop :=
  ∀ k, k < ns.length → A[base + k]? = ns[k]?

theorem Agrees.left {A : List FN} {base : Nat} {xs ys : List FN} (h : Agrees A base (xs ++ ys)) : Agrees A base xs := by
  intro k hk
  have := h k (by simp only [List.length_append]; omega)
  rw [this, List.getElem?_append_left hk]

theorem Agrees.right {A : List FN} {base : Nat} {xs ys : List FN} (h : Agrees A base (xs ++ ys)) :
    Agrees A (base + xs.length) ys := by
  intro k hk
  have := h (xs.length + k) (by simp only [List.length_append]; omega)
  rw [← Nat.add_assoc] at this
  rw [this, List.getElem?_append_right (by omega)]
  simp

theorem Agrees.get {A : List FN} {base : Nat} {ns : List FN} (h : Agrees A base ns) (k : Nat) (hk : k < ns.length) :
    A[base + k]? = some ns[k] := by
  rw [h k hk]; simp [hk]

theorem Agrees.last {A : List FN} {base : Nat} {xs : List FN} {x : FN} (h : Agrees A base (xs ++ [x])) :
    A[base + xs.length]? = some x := by
  have := h xs.length (by simp)
  rw [this]; simp

def readTy : Nat → List FN → Nat → Option Ty
  | 0, _, _ => none
  | fuel + 1, ns, i =>
    match ns[i]? with
    | none => none
    | some n =>
      match n.tag with
      | .SimpleValueType => some (.simple n.text)
      | .UnresolvedStructOrWordVT => some (.named n.text)
      | .PointerVT => (readTy fuel ns (i - 1)).map .ptr
      | .ViewVT => (readTy fuel ns (i - 1)).map .view
      | .ArraylikeVT => (readTy fuel ns (i - 1)).map .arraylike
      | .SliceVT => (readTy fuel ns (i - 1)).map .slice
      | .EndlessArrayVT => (readTy fuel ns (i - 1)).map .endless
      | .ArrayVT => (readTy fuel ns (i - 1)).map (.array n.val)
      | .ArrayWithNamedLengthVT => (readTy fuel ns (i - 1)).map (.arrayNamed n.text)
      | .CompositeValueType =>
        match ns[i - 1]? with
        | some m => if m.tag = .EndOfSpan then readTy fuel ns (i - 2) else none
        | none => none
      | _ => none

theorem encInner_pos (t : Ty) : 1 ≤ (encInner t).length := by
  cases t <;> simp [encInner]

theorem read_encInner (t : Ty) : ∀ (A : List FN) (base fuel : Nat), (encInner t).length ≤ fuel → Agrees A base (encInner t) →
    readTy fuel A (base + (encInner t).length - 1) = some t := by
  induction t with
  | simple kw =>
    intro A base fuel hf h
    obtain ⟨f, rfl⟩ : ∃ f, fuel = f + 1 := ⟨fuel - 1, by simp [encInner] at hf; omega⟩
    have := h.get 0 (by simp [encInner])
    simp [encInner, fnText] at this ⊢
    simp [readTy, this]
  | named id =>
    intro A base fuel hf h
    obtain ⟨f, rfl⟩ : ∃ f, fuel = f + 1 := ⟨fuel - 1, by simp [encInner] at hf; omega⟩
    have := h.get 0 (by simp [encInner])
    simp [encInner, fnText] at this ⊢
    simp [readTy, this]
  | ptr t ih =>
    intro A base fuel hf h
    obtain ⟨f, rfl⟩ : ∃ f, fuel = f + 1 := ⟨fuel - 1, by simp [encInner] at hf; omega⟩
    simp only [encInner, List.length_append, List.length_cons, List.length_nil] at hf
    simp only [encInner] at h ⊢
    have hp := encInner_pos t
    have hl := h.last
    have hrec := ih A base f (by omega) h.left
    simp only [List.length_append, List.length_cons, List.length_nil]
    have e1 : base + ((encInner t).length + (0 + 1)) - 1 = base + (encInner t).length := by omega
    rw [e1, readTy, hl]
    simp only [fn]
    have e2 : base + (encInner t).length - 1 = base + (encInner t).length - 1 := rfl
    rw [hrec]; rfl
  | view t ih =>
    intro A base fuel hf h
    obtain ⟨f, rfl⟩ : ∃ f, fuel = f + 1 := ⟨fuel - 1, by simp [encInner] at hf; omega⟩
    simp only [encInner, List.length_append, List.length_cons, List.length_nil] at hf
    simp only [encInner] at h ⊢
    have hp := encInner_pos t
    have hl := h.last
    have hrec := ih A base f (by omega) h.left
    simp only [List.length_append, List.length_cons, List.length_nil]
    have e1 : base + ((encInner t).length + (0 + 1)) - 1 = base + (encInner t).length := by omega
    rw [e1, readTy, hl]
    simp only [fn]
    rw [hrec]; rfl
  | arraylike t ih =>
    intro A base fuel hf h
    obtain ⟨f, rfl⟩ : ∃ f, fuel = f + 1 := ⟨fuel - 1, by simp [encInner] at hf; omega⟩
    simp only [encInner, List.length_append, List.length_cons, List.length_nil] at hf
    simp only [encInner] at h ⊢
    have hp := encInner_pos t
    have hl := h.last
    have hrec := ih A base f (by omega) h.left
    simp only [List.length_append, List.length_cons, List.length_nil]
    have e1 : base + ((encInner t).length + (0 + 1)) - 1 = base + (encInner t).length := by omega
    rw [e1, readTy, hl]
    simp only [fn]
    rw [hrec]; rfl
  | slice t ih =>
    intro A base fuel hf h
    obtain ⟨f, rfl⟩ : ∃ f, fuel = f + 1 := ⟨fuel - 1, by simp [encInner] at hf; omega⟩
    simp only [encInner, List.length_append, List.length_cons, List.length_nil] at hf
    simp only [encInner] at h ⊢
    have hp := encInner_pos t
    have hl := h.last
    have hrec := ih A base f (by omega) h.left
    simp only [List.length_append, List.length_cons, List.length_nil]
    have e1 : base + ((encInner t).length + (0 + 1)) - 1 = base + (encInner t).length := by omega
    rw [e1, readTy, hl]
    simp only [fn]
    rw [hrec]; rfl
  | endless t ih =>
    intro A base fuel hf h
    obtain ⟨f, rfl⟩ : ∃ f, fuel = f + 1 := ⟨fuel - 1, by simp [encInner] at hf; omega⟩
    simp only [encInner, List.length_append, List.length_cons, List.length_nil] at hf
    simp only [encInner] at h ⊢
    have hp := encInner_pos t
    have hl := h.last
    have hrec := ih A base f (by omega) h.left
    simp only [List.length_append, List.length_cons, List.length_nil]
    have e1 : base + ((encInner t).length + (0 + 1)) - 1 = base + (encInner t).length := by omega
    rw [e1, readTy, hl]
    simp only [fn]
    rw [hrec]; rfl
  | array n t ih =>
    intro A base fuel hf h
    obtain ⟨f, rfl⟩ : ∃ f, fuel = f + 1 := ⟨fuel - 1, by simp [encInner] at hf; omega⟩
    simp only [encInner, List.length_append, List.length_cons, List.length_nil] at hf
    simp only [encInner] at h ⊢
    have hp := encInner_pos t
    have hl := h.last
    have hrec := ih A base f (by omega) h.left
    simp only [List.length_append, List.length_cons, List.length_nil]
    have e1 : base + ((encInner t).length + (0 + 1)) - 1 = base + (encInner t).length := by omega
    rw [e1, readTy, hl]
    simp only []
    rw [hrec]; rfl
  | arrayNamed id t ih =>
    intro A base fuel hf h
    obtain ⟨f, rfl⟩ : ∃ f, fuel = f + 1 := ⟨fuel - 1, by simp [encInner] at hf; omega⟩
    simp only [encInner, List.length_append, List.length_cons, List.length_nil] at hf
    simp only [encInner] at h ⊢
    have hp := encInner_pos t
    have hl := h.last
    have hrec := ih A base f (by omega) h.left
    simp only [List.length_append, List.length_cons, List.length_nil]
    have e1 : base + ((encInner t).length + (0 + 1)) - 1 = base + (encInner t).length := by omega
    rw [e1, readTy, hl]
    simp only [fnText]
    rw [hrec]; rfl

theorem encInner_length (t : Ty) : (encInner t).length = t.depth := by
  induction t <;> simp_all [encInner, Ty.depth]

theorem encTy_pos (t : Ty) : 1 ≤ (encTy t).length := by
  have := encInner_pos t
  unfold encTy; split <;> simp <;> omega

/-- a type as `parse_type` pushes it (wrapped when it spans several tokens) is read back from its last node -/
theorem read_encTy (t : Ty) (A : List FN) (base fuel : Nat) (hf : t.depth + 1 ≤ fuel) (h : Agrees A base (encTy t)) :
    readTy fuel A (base + (encTy t).length - 1) = some t := by
  have hp := encInner_pos t
  have hl := encInner_length t
  unfold encTy at h ⊢
  split at h
  · rename_i hs
    simp only [hs, if_true]
    exact read_encInner t A base fuel (by omega) h
  · rename_i hs
    simp only [hs]
    obtain ⟨f, rfl⟩ : ∃ f, fuel = f + 1 := ⟨fuel - 1, by omega⟩
    have h1 : A[base + (encInner t).length + 1]? = some (fn .CompositeValueType) := by
      have := h.get ((encInner t).length + 1) (by simp)
      rw [← Nat.add_assoc] at this
      rw [this]; simp
    have h0 : A[base + (encInner t).length]? = some (fn .EndOfSpan) := by
      have := h.get ((encInner t).length) (by simp)
      rw [this]; simp
    have e1 : base + (encInner t ++ [fn .EndOfSpan, fn .CompositeValueType]).length - 1 = base + (encInner t).length + 1 := by
      simp only [List.length_append, List.length_cons, List.length_nil]; omega
    have hrec := read_encInner t A base f (by omega) h.left
    have e2 : base + (encInner t).length + 1 - 2 = base + (encInner t).length - 1 := by omega
    have e3 : base + (encInner t).length + 1 - 1 = base + (encInner t).length := by omega
    simp only [Bool.false_eq_true, if_false]
    rw [e1, readTy, h1]
    simp only [fn, e3, h0, e2, if_true]
    exact hrec

/-- the `k`-th node before node `i` (`context` in `print_xml`) -/
def ctx (ns : List FN) (i k : Nat) : Option FN := ns[i - k]?

theorem ctx_tail {A : List FN} {base : Nat} {pre tail : List FN} (h : Agrees A base (pre ++ tail)) {i : Nat}
    (hi : i = base + (pre ++ tail).length - 1) (k : Nat) (hk : k < tail.length) :
    ctx A i k = tail[tail.length - 1 - k]? := by
  unfold ctx
  have e : i - k = base + (pre.length + (tail.length - 1 - k)) := by
    simp only [List.length_append] at hi; omega
  rw [e, h _ (by simp only [List.length_append]; omega), List.getElem?_append_right (by omega)]
  congr 1; omega

mutual
def readExpr : Nat → List FN → Nat → Option Expr
  | 0, _, _ => none
  | fuel + 1, ns, i =>
    match ctx ns i 0 with
    | none => none
    | some n =>
      match n.tag with
      | .UntypedIntegerLiteral =>
        if n.text = "naked" then some (.int .naked n.val) else if n.text = "bit" then some (.int .bit n.val) else none
      | .TypedIntegerLiteral =>
        match ctx ns i 1 with
        | some m => if m.tag = .SimpleValueType then some (.int (.suffixed m.text) n.val) else none
        | none => none
      | .CharLiteral => some (.int .char n.val)
      | .BooleanLiteral => some (.bool n.val)
      | .SimpleStringLiteral => some (.str [n.text])
      | .CompositeStringLiteral =>
        match ctx ns i 1 with
        | some m => if m.tag = .EndOfSpan then some (.str n.texts) else none
        | none => none
      | .ArrayLiteral =>
        match ctx ns i 1 with
        | some m => if m.tag = .List then (m.ref.bind (readList fuel ns)).map .array else none
        | none => none
      | .Structural =>
        match ctx ns i 1 with
        | some m => if m.tag = .List then (m.ref.bind (readFields fuel ns)).map (.structural n.text) else none
        | none => none
      | .Parenthesized => (readExpr fuel ns (i - 1)).map .paren
      | .Deref =>
        match ctx ns i 1, ctx ns i 2, ctx ns i 3 with
        | some d, some id, some l =>
          if d.tag = .DerefAddressDepth ∧ id.tag = .Identifier ∧ l.tag = .List then
            (l.ref.bind (readSteps fuel ns)).map (.deref d.val id.text)
          else none
        | _, _, _ => none
      | .FunctionCall =>
        match ctx ns i 1, ctx ns i 2 with
        | some id, some l =>
          if id.tag = .Identifier ∧ l.tag = .List then
            (l.ref.bind (readList fuel ns)).map (.call id.text (n.val == 1))
          else none
        | _, _ => none
      | .Binary =>
        match ctx ns i 1, ctx ns i 2 with
        | some o, some it =>
          if o.tag = .BinaryOp ∧ it.tag = .Item then
            match binOfCode o.val, it.ref.bind (readExpr fuel ns), readExpr fuel ns (i - 3) with
            | some op, some l, some r => some (.bin op l r)
            | _, _, _ => none
          else none
        | _, _ => none
      | .Unary =>
        match ctx ns i 1 with
        | some o =>
          if o.tag = .UnaryOp then
            match unOfCode o.val, readExpr fuel ns (i - 2) with
            | some op, some e => some (.un op e)
            | _, _ => none
          else none
        | none => none
      | .BitCast => (readExpr fuel ns (i - 1)).map .bitcast
      | .TypeCast =>
        match ctx ns i 1 with
        | some it =>
          if it.tag = .Item then
            match it.ref.bind (readExpr fuel ns), readTy fuel ns (i - 2) with
            | some e, some t => some (.typecast e t)
            | _, _ => none
          else none
        | none => none
      | .LengthOf =>
        match readExpr fuel ns (i - 1) with
        | some (.deref d name st) => some (.lengthOf d name st)
        | _ => none
      | .SizeOf => (readTy fuel ns (i - 1)).map .sizeOf
      | _ => none
def readList : Nat → List FN → Nat → Option Exprs
  | 0, _, _ => none
  | fuel + 1, ns, i =>
    match ctx ns i 0 with
    | none => none
    | some n =>
      match n.tag with
      | .NoMoreItems => some .nil
      | .ListItem =>
        match readExpr fuel ns (i - 1), n.ref.bind (readList fuel ns) with
        | some e, some es => some (.cons e es)
        | _, _ => none
      | _ => none
def readSteps : Nat → List FN → Nat → Option Steps
  | 0, _, _ => none
  | fuel + 1, ns, i =>
    match ctx ns i 0 with
    | none => none
    | some n =>
      match n.tag with
      | .NoMoreItems => some .nil
      | .ListItem =>
        match ctx ns i 1, n.ref.bind (readSteps fuel ns) with
        | some it, some rest =>
          match it.tag with
          | .DerefStepMember => some (.member it.text rest)
          | .DerefStepElement => (readExpr fuel ns (i - 2)).map (fun e => .elem e rest)
          | _ => none
        | _, _ => none
      | _ => none
def readFields : Nat → List FN → Nat → Option Fields
  | 0, _, _ => none
  | fuel + 1, ns, i =>
    match ctx ns i 0 with
    | none => none
    | some n =>
      match n.tag with
      | .NoMoreItems => some .nil
      | .ListItem =>
        match ctx ns i 1, n.ref.bind (readFields fuel ns) with
        | some it, some rest =>
          if it.tag = .IdentifierAndExpression then (readExpr fuel ns (i - 2)).map (fun e => .cons it.text e rest) else none
        | _, _ => none
      | _ => none
end

theorem encExpr_pos (base : Nat) (e : Expr) : 1 ≤ (encExpr base e).length := by
  cases e with
  | int k v => cases k <;> simp [encExpr]
  | str ps =>
    cases ps with
    | nil => simp [encExpr]
    | cons p ps => cases ps <;> simp [encExpr]
  | _ => simp [encExpr, derefTail] <;> omega

theorem binOfCode_binCode (op : BinOp) : binOfCode (binCode op) = some op := by cases op <;> rfl
theorem unOfCode_unCode (op : UnOp) : unOfCode (unCode op) = some op := by cases op <;> rfl
theorem cmpOfCode_cmpCode (op : CmpOp) : cmpOfCode (cmpCode op) = some op := by cases op <;> rfl

theorem Agrees.head {A : List FN} {base : Nat} {x : FN} {xs : List FN} (h : Agrees A base (x :: xs)) : A[base]? = some x := by
  have := h 0 (by simp)
  simpa using this

theorem Agrees.tail {A : List FN} {base : Nat} {x : FN} {xs : List FN} (h : Agrees A base (x :: xs)) : Agrees A (base + 1) xs := by
  intro k hk
  have := h (k + 1) (by simp; omega)
  rw [show base + 1 + k = base + (k + 1) by omega, this]; simp

theorem ctx_zero (A : List FN) (i : Nat) : ctx A i 0 = A[i]? := rfl

theorem read_deref_aux (st : Steps) (d : Nat) (name : String) (A : List FN) (base f : Nat)
    (h : Agrees A base ((encSteps base st).1 ++ derefTail (encSteps base st).2 name d))
    (hst : readSteps f A (encSteps base st).2 = some st) :
    readExpr (f + 1) A (base + ((encSteps base st).1 ++ derefTail (encSteps base st).2 name d).length - 1)
      = some (.deref d name st) := by
  unfold derefTail at h ⊢
  have c0 := ctx_tail h rfl 0 (by simp)
  have c1 := ctx_tail h rfl 1 (by simp)
  have c2 := ctx_tail h rfl 2 (by simp)
  have c3 := ctx_tail h rfl 3 (by simp)
  rw [readExpr, c0, c1, c2, c3]
  simp [fn, fnRef, fnText, hst]

mutual
theorem read_encExpr : (e : Expr) → ∀ (A : List FN) (base fuel : Nat), 2 * e.size ≤ fuel → Agrees A base (encExpr base e) →
    readExpr fuel A (base + (encExpr base e).length - 1) = some e
  | .int .naked v, A, base, fuel, hf, h => by
    simp only [Expr.size] at hf
    obtain ⟨f, rfl⟩ : ∃ f, fuel = f + 1 := ⟨fuel - 1, by omega⟩
    simp only [encExpr] at h ⊢
    have c0 := ctx_tail (pre := []) h rfl 0 (by simp)
    rw [readExpr]; simp at c0 ⊢; rw [c0]; simp
  | .int .bit v, A, base, fuel, hf, h => by
    simp only [Expr.size] at hf
    obtain ⟨f, rfl⟩ : ∃ f, fuel = f + 1 := ⟨fuel - 1, by omega⟩
    simp only [encExpr] at h ⊢
    have c0 := ctx_tail (pre := []) h rfl 0 (by simp)
    rw [readExpr]; simp at c0 ⊢; rw [c0]; simp
  | .int .char v, A, base, fuel, hf, h => by
    simp only [Expr.size] at hf
    obtain ⟨f, rfl⟩ : ∃ f, fuel = f + 1 := ⟨fuel - 1, by omega⟩
    simp only [encExpr] at h ⊢
    have c0 := ctx_tail (pre := []) h rfl 0 (by simp)
    rw [readExpr]; simp at c0 ⊢; rw [c0]
  | .int (.suffixed vt) v, A, base, fuel, hf, h => by
    simp only [Expr.size] at hf
    obtain ⟨f, rfl⟩ : ∃ f, fuel = f + 1 := ⟨fuel - 1, by omega⟩
    simp only [encExpr] at h ⊢
    have c0 := ctx_tail (pre := []) h rfl 0 (by simp)
    have c1 := ctx_tail (pre := []) h rfl 1 (by simp)
    rw [readExpr]; simp at c0 c1 ⊢; rw [c0]; simp [c1, fnText]
  | .bool v, A, base, fuel, hf, h => by
    simp only [Expr.size] at hf
    obtain ⟨f, rfl⟩ : ∃ f, fuel = f + 1 := ⟨fuel - 1, by omega⟩
    simp only [encExpr] at h ⊢
    have c0 := ctx_tail (pre := []) h rfl 0 (by simp)
    rw [readExpr]; simp at c0 ⊢; rw [c0]
  | .str [], A, base, fuel, hf, h => by
    simp only [Expr.size] at hf
    obtain ⟨f, rfl⟩ : ∃ f, fuel = f + 1 := ⟨fuel - 1, by omega⟩
    simp only [encExpr] at h ⊢
    have c0 := ctx_tail (pre := []) h rfl 0 (by simp)
    have c1 := ctx_tail (pre := []) h rfl 1 (by simp)
    rw [readExpr]; simp at c0 c1 ⊢; rw [c0]; simp [c1, fn]
  | .str [p], A, base, fuel, hf, h => by
    simp only [Expr.size] at hf
    obtain ⟨f, rfl⟩ : ∃ f, fuel = f + 1 := ⟨fuel - 1, by omega⟩
    simp only [encExpr] at h ⊢
    have c0 := ctx_tail (pre := []) h rfl 0 (by simp)
    rw [readExpr]; simp at c0 ⊢; rw [c0]; simp [fnText]
  | .str (p :: q :: ps), A, base, fuel, hf, h => by
    simp only [Expr.size] at hf
    obtain ⟨f, rfl⟩ : ∃ f, fuel = f + 1 := ⟨fuel - 1, by omega⟩
    simp only [encExpr] at h ⊢
    have c0 := ctx_tail (pre := []) h rfl 0 (by simp)
    have c1 := ctx_tail (pre := []) h rfl 1 (by simp)
    rw [readExpr]; simp at c0 c1 ⊢; rw [c0]; simp [c1, fn]
  | .array es, A, base, fuel, hf, h => by
    simp only [Expr.size] at hf
    obtain ⟨f, rfl⟩ : ∃ f, fuel = f + 1 := ⟨fuel - 1, by omega⟩
    simp only [encExpr] at h ⊢
    have c0 := ctx_tail h rfl 0 (by simp)
    have c1 := ctx_tail h rfl 1 (by simp)
    have ih := read_encList es A base f (by omega) h.left
    rw [readExpr, c0, c1]
    simp [fnRef, ih]
  | .structural name fs, A, base, fuel, hf, h => by
    simp only [Expr.size] at hf
    obtain ⟨f, rfl⟩ : ∃ f, fuel = f + 1 := ⟨fuel - 1, by omega⟩
    simp only [encExpr] at h ⊢
    have c0 := ctx_tail h rfl 0 (by simp)
    have c1 := ctx_tail h rfl 1 (by simp)
    have ih := read_encFields fs A base f (by omega) h.left
    rw [readExpr, c0, c1]
    simp [fnRef, fnText, ih]
  | .paren e, A, base, fuel, hf, h => by
    simp only [Expr.size] at hf
    obtain ⟨f, rfl⟩ : ∃ f, fuel = f + 1 := ⟨fuel - 1, by omega⟩
    simp only [encExpr] at h ⊢
    have c0 := ctx_tail h rfl 0 (by simp)
    have ih := read_encExpr e A base f (by omega) h.left
    rw [readExpr, c0]
    simp [fn, ih]
  | .deref d name st, A, base, fuel, hf, h => by
    simp only [Expr.size] at hf
    obtain ⟨f, rfl⟩ : ∃ f, fuel = f + 1 := ⟨fuel - 1, by omega⟩
    simp only [encExpr] at h ⊢
    exact read_deref_aux st d name A base f h (read_encSteps st A base f (by omega) h.left)
  | .call name b args, A, base, fuel, hf, h => by
    simp only [Expr.size] at hf
    obtain ⟨f, rfl⟩ : ∃ f, fuel = f + 1 := ⟨fuel - 1, by omega⟩
    simp only [encExpr] at h ⊢
    have c0 := ctx_tail h rfl 0 (by simp)
    have c1 := ctx_tail h rfl 1 (by simp)
    have c2 := ctx_tail h rfl 2 (by simp)
    have ih := read_encList args A base f (by omega) h.left
    rw [readExpr, c0, c1, c2]
    cases b <;> simp [fnRef, fnText, ih]
  | .bin op l r, A, base, fuel, hf, h => by
    simp only [Expr.size] at hf
    obtain ⟨f, rfl⟩ : ∃ f, fuel = f + 1 := ⟨fuel - 1, by omega⟩
    simp only [encExpr] at h ⊢
    have hl := encExpr_pos base l
    have hr := encExpr_pos (base + (encExpr base l).length) r
    have c0 := ctx_tail h rfl 0 (by simp)
    have c1 := ctx_tail h rfl 1 (by simp)
    have c2 := ctx_tail h rfl 2 (by simp)
    have ihl := read_encExpr l A base f (by omega) h.left.left
    have ihr := read_encExpr r A (base + (encExpr base l).length) f (by omega) h.left.right
    rw [readExpr, c0, c1, c2]
    have e3 : base + (encExpr base l ++ encExpr (base + (encExpr base l).length) r ++
        [fnRef .Item (base + (encExpr base l).length - 1), { tag := .BinaryOp, val := binCode op }, fn .Binary]).length - 1 - 3
        = base + (encExpr base l).length + (encExpr (base + (encExpr base l).length) r).length - 1 := by
      simp only [List.length_append, List.length_cons, List.length_nil]; omega
    rw [e3]
    simp [fn, fnRef, binOfCode_binCode, ihl, ihr]
  | .un op e, A, base, fuel, hf, h => by
    simp only [Expr.size] at hf
    obtain ⟨f, rfl⟩ : ∃ f, fuel = f + 1 := ⟨fuel - 1, by omega⟩
    simp only [encExpr] at h ⊢
    have hp := encExpr_pos base e
    have c0 := ctx_tail h rfl 0 (by simp)
    have c1 := ctx_tail h rfl 1 (by simp)
    have ih := read_encExpr e A base f (by omega) h.left
    rw [readExpr, c0, c1]
    have e2 : base + (encExpr base e ++ [{ tag := .UnaryOp, val := unCode op }, fn .Unary]).length - 1 - 2
        = base + (encExpr base e).length - 1 := by
      simp only [List.length_append, List.length_cons, List.length_nil]; omega
    rw [e2]
    simp [fn, unOfCode_unCode, ih]
  | .bitcast e, A, base, fuel, hf, h => by
    simp only [Expr.size] at hf
    obtain ⟨f, rfl⟩ : ∃ f, fuel = f + 1 := ⟨fuel - 1, by omega⟩
    simp only [encExpr] at h ⊢
    have c0 := ctx_tail h rfl 0 (by simp)
    have ih := read_encExpr e A base f (by omega) h.left
    rw [readExpr, c0]
    simp [fn, ih]
  | .typecast e t, A, base, fuel, hf, h => by
    simp only [Expr.size] at hf
    obtain ⟨f, rfl⟩ : ∃ f, fuel = f + 1 := ⟨fuel - 1, by omega⟩
    simp only [encExpr] at h ⊢
    have hp := encExpr_pos base e
    have hs : 1 ≤ e.size := by cases e <;> simp [Expr.size]
    have ht := encTy_pos t
    have c0 := ctx_tail h rfl 0 (by simp)
    have c1 := ctx_tail h rfl 1 (by simp)
    have ih := read_encExpr e A base f (by omega) h.left.left
    have iht := read_encTy t A (base + (encExpr base e).length) f (by omega) h.left.right
    rw [readExpr, c0, c1]
    have e2 : base + (encExpr base e ++ encTy t ++ [fnRef .Item (base + (encExpr base e).length - 1), fn .TypeCast]).length - 1 - 2
        = base + (encExpr base e).length + (encTy t).length - 1 := by
      simp only [List.length_append, List.length_cons, List.length_nil]; omega
    rw [e2]
    simp [fn, fnRef, ih, iht]
  | .lengthOf d name st, A, base, fuel, hf, h => by
    simp only [Expr.size] at hf
    have hs : 1 ≤ st.size := by cases st <;> simp [Steps.size]
    obtain ⟨f, rfl⟩ : ∃ f, fuel = f + 2 := ⟨fuel - 2, by omega⟩
    simp only [encExpr] at h ⊢
    have c0 := ctx_tail h rfl 0 (by simp)
    have ih := read_deref_aux st d name A base f h.left (read_encSteps st A base f (by omega) h.left.left)
    rw [readExpr, c0]
    have e1 : base + ((encSteps base st).1 ++ derefTail (encSteps base st).2 name d ++ [fn .LengthOf]).length - 1 - 1
        = base + ((encSteps base st).1 ++ derefTail (encSteps base st).2 name d).length - 1 := by
      simp only [List.length_append, List.length_cons, List.length_nil, derefTail]; omega
    rw [e1, ih]
    simp [fn]
  | .sizeOf t, A, base, fuel, hf, h => by
    simp only [Expr.size] at hf
    obtain ⟨f, rfl⟩ : ∃ f, fuel = f + 1 := ⟨fuel - 1, by omega⟩
    simp only [encExpr] at h ⊢
    have ht := encTy_pos t
    have c0 := ctx_tail h rfl 0 (by simp)
    have iht := read_encTy t A base f (by omega) h.left
    rw [readExpr, c0]
    simp [fn, iht]
theorem read_encList : (es : Exprs) → ∀ (A : List FN) (base fuel : Nat), 2 * es.size ≤ fuel → Agrees A base (encList base es).1 →
    readList fuel A (encList base es).2 = some es
  | .nil, A, base, fuel, hf, h => by
    simp only [Exprs.size] at hf
    obtain ⟨f, rfl⟩ : ∃ f, fuel = f + 1 := ⟨fuel - 1, by omega⟩
    simp only [encList] at h ⊢
    rw [readList, ctx_zero, h.head]; rfl
  | .cons e es, A, base, fuel, hf, h => by
    simp only [Exprs.size] at hf
    obtain ⟨f, rfl⟩ : ∃ f, fuel = f + 1 := ⟨fuel - 1, by omega⟩
    simp only [encList] at h ⊢
    have ih := read_encExpr e A base f (by omega) h.left
    have ihs := read_encList es A (base + (encExpr base e).length + 1) f (by omega) h.right.tail
    rw [readList, ctx_zero, h.right.head]
    simp [fnRef, ih, ihs]
theorem read_encSteps : (st : Steps) → ∀ (A : List FN) (base fuel : Nat), 2 * st.size ≤ fuel → Agrees A base (encSteps base st).1 →
    readSteps fuel A (encSteps base st).2 = some st
  | .nil, A, base, fuel, hf, h => by
    simp only [Steps.size] at hf
    obtain ⟨f, rfl⟩ : ∃ f, fuel = f + 1 := ⟨fuel - 1, by omega⟩
    simp only [encSteps] at h ⊢
    rw [readSteps, ctx_zero, h.head]; rfl
  | .member id rest, A, base, fuel, hf, h => by
    simp only [Steps.size] at hf
    obtain ⟨f, rfl⟩ : ∃ f, fuel = f + 1 := ⟨fuel - 1, by omega⟩
    simp only [encSteps] at h ⊢
    have ihs := read_encSteps rest A (base + 1 + 1) f (by omega) h.tail.tail
    have c1 : ctx A (base + 1) 1 = some (fnText .DerefStepMember id) := by
      unfold ctx; rw [show base + 1 - 1 = base by omega]; exact h.head
    rw [readSteps, ctx_zero, h.tail.head, c1]
    simp [fnRef, fnText, ihs]
  | .elem e rest, A, base, fuel, hf, h => by
    simp only [Steps.size] at hf
    obtain ⟨f, rfl⟩ : ∃ f, fuel = f + 1 := ⟨fuel - 1, by omega⟩
    simp only [encSteps] at h ⊢
    have ih := read_encExpr e A base f (by omega) h.left
    have ihs := read_encSteps rest A (base + (encExpr base e).length + 1 + 1) f (by omega) h.right.tail.tail
    have c1 : ctx A (base + (encExpr base e).length + 1) 1 = some (fn .DerefStepElement) := by
      unfold ctx; rw [show base + (encExpr base e).length + 1 - 1 = base + (encExpr base e).length by omega]; exact h.right.head
    rw [readSteps, ctx_zero, h.right.tail.head, c1]
    have e2 : base + (encExpr base e).length + 1 - 2 = base + (encExpr base e).length - 1 := by omega
    simp [fnRef, fn, ihs, e2, ih]
theorem read_encFields : (fs : Fields) → ∀ (A : List FN) (base fuel : Nat), 2 * fs.size ≤ fuel → Agrees A base (encFields base fs).1 →
    readFields fuel A (encFields base fs).2 = some fs
  | .nil, A, base, fuel, hf, h => by
    simp only [Fields.size] at hf
    obtain ⟨f, rfl⟩ : ∃ f, fuel = f + 1 := ⟨fuel - 1, by omega⟩
    simp only [encFields] at h ⊢
    rw [readFields, ctx_zero, h.head]; rfl
  | .cons name e rest, A, base, fuel, hf, h => by
    simp only [Fields.size] at hf
    obtain ⟨f, rfl⟩ : ∃ f, fuel = f + 1 := ⟨fuel - 1, by omega⟩
    simp only [encFields] at h ⊢
    have ih := read_encExpr e A base f (by omega) h.left
    have ihs := read_encFields rest A (base + (encExpr base e).length + 1 + 1) f (by omega) h.right.tail.tail
    have c1 : ctx A (base + (encExpr base e).length + 1) 1 = some (fnText .IdentifierAndExpression name) := by
      unfold ctx; rw [show base + (encExpr base e).length + 1 - 1 = base + (encExpr base e).length by omega]; exact h.right.head
    rw [readFields, ctx_zero, h.right.tail.head, c1]
    have e2 : base + (encExpr base e).length + 1 - 2 = base + (encExpr base e).length - 1 := by omega
    simp [fnRef, fnText, ihs, e2, ih]
end

/-- the `Comparison` node of an `if` -/
def readCmp (fuel : Nat) (ns : List FN) (i : Nat) : Option (CmpOp × Expr × Expr) :=
  match ctx ns i 0, ctx ns i 1, ctx ns i 2 with
  | some n, some o, some it =>
    if n.tag = .Comparison ∧ o.tag = .ComparisonOp ∧ it.tag = .Item then
      match cmpOfCode o.val, it.ref.bind (readExpr fuel ns), readExpr fuel ns (i - 3) with
      | some op, some l, some r => some (op, l, r)
      | _, _, _ => none
    else none
  | _, _, _ => none

theorem read_encCmp (op : CmpOp) (l r : Expr) (A : List FN) (base fuel : Nat) (hf : 2 * (l.size + r.size) ≤ fuel)
    (h : Agrees A base (encCmp base op l r)) :
    readCmp fuel A (base + (encCmp base op l r).length - 1) = some (op, l, r) := by
  simp only [encCmp] at h ⊢
  have hl := encExpr_pos base l
  have hr := encExpr_pos (base + (encExpr base l).length) r
  have c0 := ctx_tail h rfl 0 (by simp)
  have c1 := ctx_tail h rfl 1 (by simp)
  have c2 := ctx_tail h rfl 2 (by simp)
  have ihl := read_encExpr l A base fuel (by omega) h.left.left
  have ihr := read_encExpr r A (base + (encExpr base l).length) fuel (by omega) h.left.right
  rw [readCmp, c0, c1, c2]
  have e3 : base + (encExpr base l ++ encExpr (base + (encExpr base l).length) r ++
      [fnRef .Item (base + (encExpr base l).length - 1), { tag := .ComparisonOp, val := cmpCode op }, fn .Comparison]).length - 1 - 3
      = base + (encExpr base l).length + (encExpr (base + (encExpr base l).length) r).length - 1 := by
    simp only [List.length_append, List.length_cons, List.length_nil]; omega
  rw [e3]
  simp [fn, fnRef, cmpOfCode_cmpCode, ihl, ihr]

theorem encCmp_length (base : Nat) (op : CmpOp) (l r : Expr) : 3 ≤ (encCmp base op l r).length := by
  simp [encCmp]; omega

/-- an optional item slot: `Item { at }` or `NoMoreItems` -/
def readOptTy (fuel : Nat) (ns : List FN) (slot : Option FN) : Option (Option Ty) :=
  match slot with
  | some it =>
    match it.tag with
    | .Item => (it.ref.bind (readTy fuel ns)).map some
    | .NoMoreItems => some none
    | _ => none
  | none => none
def readOptExpr (fuel : Nat) (ns : List FN) (slot : Option FN) : Option (Option Expr) :=
  match slot with
  | some it =>
    match it.tag with
    | .Item => (it.ref.bind (readExpr fuel ns)).map some
    | .NoMoreItems => some none
    | _ => none
  | none => none

mutual
def readStmt : Nat → List FN → Nat → Option Stmt
  | 0, _, _ => none
  | fuel + 1, ns, i =>
    match ctx ns i 0 with
    | none => none
    | some n =>
      match n.tag with
      | .VariableDeclaration =>
        match readOptTy fuel ns (ctx ns i 1), readOptExpr fuel ns (ctx ns i 2) with
        | some ty, some val => some (.var n.text ty val)
        | _, _ => none
      | .Assignment =>
        match ctx ns i 1 with
        | some it =>
          if it.tag = .Item then
            match it.ref.bind (readExpr fuel ns), readExpr fuel ns (i - 2) with
            | some (.deref d name st), some e => some (.assign d name st e)
            | _, _ => none
          else none
        | none => none
      | .MethodCall =>
        match ctx ns i 1, ctx ns i 2 with
        | some id, some l =>
          if id.tag = .Identifier ∧ l.tag = .List then
            (l.ref.bind (readList fuel ns)).map (.mcall id.text (n.val == 1))
          else none
        | _, _ => none
      | .Loop => some .loop
      | .Goto =>
        match ctx ns i 1 with
        | some id => if id.tag = .Identifier then some (.goto id.text) else none
        | none => none
      | .Label =>
        match ctx ns i 1 with
        | some id => if id.tag = .Identifier then some (.label id.text) else none
        | none => none
      | .If =>
        match n.ref.bind (readCmp fuel ns), ctx ns i 1 with
        | some (op, l, r), some br =>
          match br.tag with
          | .Then => (readStmt fuel ns (i - 2)).map (.ifThen op l r)
          | .ThenElse =>
            match br.ref.bind (readStmt fuel ns), readStmt fuel ns (i - 2) with
            | some th, some el => some (.ifElse op l r th el)
            | _, _ => none
          | _ => none
        | _, _ => none
      | .Block => (n.ref.bind (readStmts fuel ns)).map .block
      | _ => none
def readStmts : Nat → List FN → Nat → Option Stmts
  | 0, _, _ => none
  | fuel + 1, ns, i =>
    match ctx ns i 0 with
    | none => none
    | some n =>
      match n.tag with
      | .NoMoreItems => some .nil
      | .ListItem =>
        match readStmt fuel ns (i - 1), n.ref.bind (readStmts fuel ns) with
        | some s, some ss => some (.cons s ss)
        | _, _ => none
      | _ => none
end

theorem Expr.size_pos (e : Expr) : 1 ≤ e.size := by cases e <;> simp [Expr.size]
theorem Steps.size_pos (st : Steps) : 1 ≤ st.size := by cases st <;> simp [Steps.size]
theorem Ty.depth_pos (t : Ty) : 1 ≤ t.depth := by cases t <;> simp [Ty.depth]

theorem encStmt_pos (base : Nat) (s : Stmt) : 1 ≤ (encStmt base s).length := by
  cases s <;> simp [encStmt] <;> omega

mutual
theorem read_encStmt : (s : Stmt) → ∀ (A : List FN) (base fuel : Nat), 2 * s.size ≤ fuel → Agrees A base (encStmt base s) →
    readStmt fuel A (base + (encStmt base s).length - 1) = some s
  | .var name (some t) (some e), A, base, fuel, hf, h => by
    simp only [Stmt.size, optTySize, optSize] at hf
    obtain ⟨f, rfl⟩ : ∃ f, fuel = f + 1 := ⟨fuel - 1, by omega⟩
    simp only [encStmt] at h ⊢
    have c0 := ctx_tail h rfl 0 (by simp)
    have c1 := ctx_tail h rfl 1 (by simp)
    have c2 := ctx_tail h rfl 2 (by simp)
    have iht := read_encTy t A base f (by omega) h.left.left
    have ihe := read_encExpr e A (base + (encTy t).length) f (by omega) h.left.right
    rw [readStmt, c0, c1, c2]
    simp [fnRef, fnText, readOptTy, readOptExpr, iht, ihe]
  | .var name (some t) none, A, base, fuel, hf, h => by
    simp only [Stmt.size, optTySize, optSize] at hf
    obtain ⟨f, rfl⟩ : ∃ f, fuel = f + 1 := ⟨fuel - 1, by omega⟩
    simp only [encStmt, List.append_nil] at h ⊢
    have c0 := ctx_tail h rfl 0 (by simp)
    have c1 := ctx_tail h rfl 1 (by simp)
    have c2 := ctx_tail h rfl 2 (by simp)
    have iht := read_encTy t A base f (by omega) h.left
    rw [readStmt, c0, c1, c2]
    simp [fn, fnRef, fnText, readOptTy, readOptExpr, iht]
  | .var name none (some e), A, base, fuel, hf, h => by
    simp only [Stmt.size, optTySize, optSize] at hf
    obtain ⟨f, rfl⟩ : ∃ f, fuel = f + 1 := ⟨fuel - 1, by omega⟩
    simp only [encStmt, List.nil_append] at h ⊢
    have c0 := ctx_tail h rfl 0 (by simp)
    have c1 := ctx_tail h rfl 1 (by simp)
    have c2 := ctx_tail h rfl 2 (by simp)
    have ihe := read_encExpr e A base f (by omega) h.left
    rw [readStmt, c0, c1, c2]
    simp [fn, fnRef, fnText, readOptTy, readOptExpr, ihe]
  | .var name none none, A, base, fuel, hf, h => by
    simp only [Stmt.size, optTySize, optSize] at hf
    obtain ⟨f, rfl⟩ : ∃ f, fuel = f + 1 := ⟨fuel - 1, by omega⟩
    simp only [encStmt, List.nil_append] at h ⊢
    have c0 := ctx_tail (pre := []) h rfl 0 (by simp)
    have c1 := ctx_tail (pre := []) h rfl 1 (by simp)
    have c2 := ctx_tail (pre := []) h rfl 2 (by simp)
    rw [readStmt]; simp at c0 c1 c2 ⊢; rw [c0]; simp [c1, c2, fn, fnText, readOptTy, readOptExpr]
  | .assign d name st e, A, base, fuel, hf, h => by
    simp only [Stmt.size] at hf
    have hs := Steps.size_pos st
    have he := Expr.size_pos e
    obtain ⟨f, rfl⟩ : ∃ f, fuel = f + 2 := ⟨fuel - 2, by omega⟩
    simp only [encStmt] at h ⊢
    have hp := encExpr_pos (base + ((encSteps base st).1 ++ derefTail (encSteps base st).2 name d).length) e
    have c0 := ctx_tail h rfl 0 (by simp)
    have c1 := ctx_tail h rfl 1 (by simp)
    have ihr := read_deref_aux st d name A base f h.left.left (read_encSteps st A base f (by omega) h.left.left.left)
    have ihe := read_encExpr e A _ (f + 1) (by omega) h.left.right
    rw [readStmt, c0, c1]
    have e2 : base + ((encSteps base st).1 ++ derefTail (encSteps base st).2 name d ++
        encExpr (base + ((encSteps base st).1 ++ derefTail (encSteps base st).2 name d).length) e ++
        [fnRef .Item (base + ((encSteps base st).1 ++ derefTail (encSteps base st).2 name d).length - 1), fn .Assignment]).length - 1 - 2
        = base + ((encSteps base st).1 ++ derefTail (encSteps base st).2 name d).length +
          (encExpr (base + ((encSteps base st).1 ++ derefTail (encSteps base st).2 name d).length) e).length - 1 := by
      simp only [List.length_append, List.length_cons, List.length_nil]; omega
    rw [e2, ihe]
    simp only [List.length_append] at ihr
    simp [fn, fnRef, ihr]
  | .mcall name b args, A, base, fuel, hf, h => by
    simp only [Stmt.size] at hf
    obtain ⟨f, rfl⟩ : ∃ f, fuel = f + 1 := ⟨fuel - 1, by omega⟩
    simp only [encStmt] at h ⊢
    have c0 := ctx_tail h rfl 0 (by simp)
    have c1 := ctx_tail h rfl 1 (by simp)
    have c2 := ctx_tail h rfl 2 (by simp)
    have ih := read_encList args A base f (by omega) h.left
    rw [readStmt, c0, c1, c2]
    cases b <;> simp [fnRef, fnText, ih]
  | .loop, A, base, fuel, hf, h => by
    simp only [Stmt.size] at hf
    obtain ⟨f, rfl⟩ : ∃ f, fuel = f + 1 := ⟨fuel - 1, by omega⟩
    simp only [encStmt] at h ⊢
    have c0 := ctx_tail (pre := []) h rfl 0 (by simp)
    rw [readStmt]; simp at c0 ⊢; rw [c0]; simp [fn]
  | .goto l, A, base, fuel, hf, h => by
    simp only [Stmt.size] at hf
    obtain ⟨f, rfl⟩ : ∃ f, fuel = f + 1 := ⟨fuel - 1, by omega⟩
    simp only [encStmt] at h ⊢
    have c0 := ctx_tail (pre := []) h rfl 0 (by simp)
    have c1 := ctx_tail (pre := []) h rfl 1 (by simp)
    rw [readStmt]; simp at c0 c1 ⊢; rw [c0]; simp [c1, fn, fnText]
  | .label l, A, base, fuel, hf, h => by
    simp only [Stmt.size] at hf
    obtain ⟨f, rfl⟩ : ∃ f, fuel = f + 1 := ⟨fuel - 1, by omega⟩
    simp only [encStmt] at h ⊢
    have c0 := ctx_tail (pre := []) h rfl 0 (by simp)
    have c1 := ctx_tail (pre := []) h rfl 1 (by simp)
    rw [readStmt]; simp at c0 c1 ⊢; rw [c0]; simp [c1, fn, fnText]
  | .ifThen op l r th, A, base, fuel, hf, h => by
    simp only [Stmt.size] at hf
    obtain ⟨f, rfl⟩ : ∃ f, fuel = f + 1 := ⟨fuel - 1, by omega⟩
    simp only [encStmt] at h ⊢
    have hc := encCmp_length base op l r
    have hp := encStmt_pos (base + (encCmp base op l r).length) th
    have c0 := ctx_tail h rfl 0 (by simp)
    have c1 := ctx_tail h rfl 1 (by simp)
    have ihc := read_encCmp op l r A base f (by omega) h.left.left
    have iht := read_encStmt th A (base + (encCmp base op l r).length) f (by omega) h.left.right
    rw [readStmt, c0, c1]
    have e2 : base + (encCmp base op l r ++ encStmt (base + (encCmp base op l r).length) th ++
        [fn .Then, fnRef .If (base + (encCmp base op l r).length - 1)]).length - 1 - 2
        = base + (encCmp base op l r).length + (encStmt (base + (encCmp base op l r).length) th).length - 1 := by
      simp only [List.length_append, List.length_cons, List.length_nil]; omega
    rw [e2, iht]
    simp [fn, fnRef, ihc]
  | .ifElse op l r th el, A, base, fuel, hf, h => by
    simp only [Stmt.size] at hf
    obtain ⟨f, rfl⟩ : ∃ f, fuel = f + 1 := ⟨fuel - 1, by omega⟩
    simp only [encStmt] at h ⊢
    have hc := encCmp_length base op l r
    have hp := encStmt_pos (base + (encCmp base op l r).length) th
    have hq := encStmt_pos (base + (encCmp base op l r).length + (encStmt (base + (encCmp base op l r).length) th).length) el
    have c0 := ctx_tail h rfl 0 (by simp)
    have c1 := ctx_tail h rfl 1 (by simp)
    have ihc := read_encCmp op l r A base f (by omega) h.left.left.left
    have iht := read_encStmt th A (base + (encCmp base op l r).length) f (by omega) h.left.left.right
    have h' : Agrees A (base + (encCmp base op l r).length + (encStmt (base + (encCmp base op l r).length) th).length)
        (encStmt (base + (encCmp base op l r).length + (encStmt (base + (encCmp base op l r).length) th).length) el) := by
      have := h.left.right
      simp only [List.length_append, ← Nat.add_assoc] at this
      exact this
    have ihe := read_encStmt el A _ f (by omega) h'
    rw [readStmt, c0, c1]
    have e2 : base + (encCmp base op l r ++ encStmt (base + (encCmp base op l r).length) th ++
        encStmt (base + (encCmp base op l r).length + (encStmt (base + (encCmp base op l r).length) th).length) el ++
        [fnRef .ThenElse (base + (encCmp base op l r).length + (encStmt (base + (encCmp base op l r).length) th).length - 1),
         fnRef .If (base + (encCmp base op l r).length - 1)]).length - 1 - 2
        = base + (encCmp base op l r).length + (encStmt (base + (encCmp base op l r).length) th).length +
          (encStmt (base + (encCmp base op l r).length + (encStmt (base + (encCmp base op l r).length) th).length) el).length - 1 := by
      simp only [List.length_append, List.length_cons, List.length_nil]; omega
    rw [e2, ihe]
    simp [fnRef, ihc, iht]
  | .block ss, A, base, fuel, hf, h => by
    simp only [Stmt.size] at hf
    obtain ⟨f, rfl⟩ : ∃ f, fuel = f + 1 := ⟨fuel - 1, by omega⟩
    simp only [encStmt] at h ⊢
    have c0 := ctx_tail h rfl 0 (by simp)
    have ih := read_encStmts ss A base f (by omega) h.left
    rw [readStmt, c0]
    simp [fnRef, ih]
theorem read_encStmts : (ss : Stmts) → ∀ (A : List FN) (base fuel : Nat), 2 * ss.size ≤ fuel → Agrees A base (encStmts base ss).1 →
    readStmts fuel A (encStmts base ss).2 = some ss
  | .nil, A, base, fuel, hf, h => by
    simp only [Stmts.size] at hf
    obtain ⟨f, rfl⟩ : ∃ f, fuel = f + 1 := ⟨fuel - 1, by omega⟩
    simp only [encStmts] at h ⊢
    rw [readStmts, ctx_zero, h.head]; rfl
  | .cons s ss, A, base, fuel, hf, h => by
    simp only [Stmts.size] at hf
    obtain ⟨f, rfl⟩ : ∃ f, fuel = f + 1 := ⟨fuel - 1, by omega⟩
    simp only [encStmts] at h ⊢
    have ih := read_encStmt s A base f (by omega) h.left
    have ihs := read_encStmts ss A (base + (encStmt base s).length + 1) f (by omega) h.right.tail
    rw [readStmts, ctx_zero, h.right.head]
    simp [fnRef, ih, ihs]
end

/-! ### declarations -/

/-- parameters / members: `type, IdentifierAndType, ListItem` -/
def readTyped : Nat → List FN → Nat → Option (List (String × Ty))
  | 0, _, _ => none
  | fuel + 1, ns, i =>
    match ctx ns i 0 with
    | none => none
    | some n =>
      match n.tag with
      | .NoMoreItems => some []
      | .ListItem =>
        match ctx ns i 1, n.ref.bind (readTyped fuel ns) with
        | some it, some rest =>
          if it.tag = .IdentifierAndType then (readTy fuel ns (i - 2)).map (fun t => (it.text, t) :: rest) else none
        | _, _ => none
      | _ => none

theorem read_encTyped : (ps : List (String × Ty)) → ∀ (A : List FN) (base fuel : Nat), 2 * typedSize ps ≤ fuel →
    Agrees A base (encTyped base ps).1 → readTyped fuel A (encTyped base ps).2 = some ps
  | [], A, base, fuel, hf, h => by
    simp only [typedSize] at hf
    obtain ⟨f, rfl⟩ : ∃ f, fuel = f + 1 := ⟨fuel - 1, by omega⟩
    simp only [encTyped] at h ⊢
    rw [readTyped, ctx_zero, h.head]; rfl
  | (n, t) :: rest, A, base, fuel, hf, h => by
    simp only [typedSize] at hf
    obtain ⟨f, rfl⟩ : ∃ f, fuel = f + 1 := ⟨fuel - 1, by omega⟩
    simp only [encTyped] at h ⊢
    have ht := encTy_pos t
    have hd := Ty.depth_pos t
    have ih := read_encTy t A base f (by omega) h.left
    have ihs := read_encTyped rest A (base + (encTy t).length + 1 + 1) f (by omega) h.right.tail.tail
    have c1 : ctx A (base + (encTy t).length + 1) 1 = some (fnText .IdentifierAndType n) := by
      unfold ctx; rw [show base + (encTy t).length + 1 - 1 = base + (encTy t).length by omega]; exact h.right.head
    rw [readTyped, ctx_zero, h.right.tail.head, c1]
    have e2 : base + (encTy t).length + 1 - 2 = base + (encTy t).length - 1 := by omega
    simp [fnRef, fnText, ihs, e2, ih]

/-- the `FunctionBody` node -/
def readBody (fuel : Nat) (ns : List FN) (i : Nat) : Option (Stmts × Option Expr) :=
  match ctx ns i 0, ctx ns i 1 with
  | some n, some l =>
    if n.tag = .FunctionBody ∧ l.tag = .List then
      match l.ref.bind (readStmts fuel ns), readOptExpr fuel ns (ctx ns i 2) with
      | some ss, some rv => some (ss, rv)
      | _, _ => none
    else none
  | _, _ => none

/-- a declaration, from its root node (`print_xml` on an entry of `ParseTree::declarations`) -/
def readDecl (fuel : Nat) (ns : List FN) (i : Nat) : Option Decl :=
  match ctx ns i 0, ctx ns i 1 with
  | some n, some fl =>
    if fl.tag = .DeclarationFlags then
      match n.tag with
      | .ImportDeclaration =>
        match ctx ns i 2 with
        | some lit => if lit.tag = .SimpleStringLiteral then some (.imp lit.text) else none
        | none => none
      | .ConstantDeclaration =>
        match ctx ns i 2, ctx ns i 3 with
        | some id, some it =>
          if id.tag = .Identifier ∧ it.tag = .Item then
            match it.ref.bind (readTy fuel ns), readExpr fuel ns (i - 4) with
            | some t, some e => some (.const fl.flags id.text t e)
            | _, _ => none
          else none
        | _, _ => none
      | .StructureDeclaration =>
        match ctx ns i 2, ctx ns i 3, ctx ns i 4 with
        | some id, some st, some l =>
          if id.tag = .Identifier ∧ st.tag = .StructuralType ∧ l.tag = .List then
            (l.ref.bind (readTyped fuel ns)).map (.struct fl.flags id.text (wsOfCode st.val))
          else none
        | _, _, _ => none
      | .FunctionDeclaration =>
        match ctx ns i 2, ctx ns i 3, ctx ns i 4, ctx ns i 5 with
        | some id, some l, some it, some impl =>
          if id.tag = .Identifier ∧ l.tag = .List ∧ it.tag = .Item then
            match l.ref.bind (readTyped fuel ns), it.ref.bind (readTy fuel ns) with
            | some ps, some ret =>
              match impl.tag with
              | .NoMoreItems => some (.fn fl.flags id.text ps ret none)
              | .Impl => (impl.ref.bind (readBody fuel ns)).map (fun b => .fn fl.flags id.text ps ret (some b))
              | _ => none
            | _, _ => none
          else none
        | _, _, _, _ => none
      | _ => none
    else none
  | _, _ => none

theorem wsOfCode_wsCode (ws : Option Nat) : wsOfCode (wsCode ws) = ws := by cases ws <;> rfl

theorem read_encImport (raw : String) (A : List FN) (base fuel : Nat) (h : Agrees A base (encImport raw)) :
    readDecl fuel A (base + 2) = some (.imp raw) := by
  unfold encImport at h
  have c0 := ctx_tail (pre := []) (i := base + 2) h (by simp) 0 (by simp)
  have c1 := ctx_tail (pre := []) (i := base + 2) h (by simp) 1 (by simp)
  have c2 := ctx_tail (pre := []) (i := base + 2) h (by simp) 2 (by simp)
  rw [readDecl, c0, c1, c2]
  simp [fn, fnText, fnFlags]

theorem read_encConst (fl : Flags) (name : String) (ty : Ty) (e : Expr) (A : List FN) (base fuel : Nat)
    (hf : 2 * (ty.depth + e.size + 1) ≤ fuel) (h : Agrees A base (encConst base fl name ty e)) :
    readDecl fuel A (base + (encConst base fl name ty e).length - 1) = some (.const fl name ty e) := by
  simp only [encConst] at h ⊢
  have ht := encTy_pos ty
  have hp := encExpr_pos (base + (encTy ty).length) e
  have c0 := ctx_tail h rfl 0 (by simp)
  have c1 := ctx_tail h rfl 1 (by simp)
  have c2 := ctx_tail h rfl 2 (by simp)
  have c3 := ctx_tail h rfl 3 (by simp)
  have iht := read_encTy ty A base fuel (by omega) h.left.left
  have ihe := read_encExpr e A (base + (encTy ty).length) fuel (by omega) h.left.right
  rw [readDecl, c0, c1, c2, c3]
  have e4 : base + (encTy ty ++ encExpr (base + (encTy ty).length) e ++
      [fnRef .Item (base + (encTy ty).length - 1), fnText .Identifier name, fnFlags fl, fn .ConstantDeclaration]).length - 1 - 4
      = base + (encTy ty).length + (encExpr (base + (encTy ty).length) e).length - 1 := by
    simp only [List.length_append, List.length_cons, List.length_nil]; omega
  rw [e4, ihe]
  simp [fn, fnRef, fnText, fnFlags, iht]

theorem read_encStruct (fl : Flags) (name : String) (ws : Option Nat) (ms : List (String × Ty)) (A : List FN) (base fuel : Nat)
    (hf : 2 * (typedSize ms + 1) ≤ fuel) (h : Agrees A base (encStruct base fl name ws ms)) :
    readDecl fuel A (base + (encStruct base fl name ws ms).length - 1) = some (.struct fl name ws ms) := by
  simp only [encStruct] at h ⊢
  have c0 := ctx_tail h rfl 0 (by simp)
  have c1 := ctx_tail h rfl 1 (by simp)
  have c2 := ctx_tail h rfl 2 (by simp)
  have c3 := ctx_tail h rfl 3 (by simp)
  have c4 := ctx_tail h rfl 4 (by simp)
  have ih := read_encTyped ms A base fuel (by omega) h.left
  rw [readDecl, c0, c1, c2, c3, c4]
  simp [fn, fnRef, fnText, fnFlags, ih, wsOfCode_wsCode]

theorem read_encBody (ss : Stmts) (rv : Option Expr) (A : List FN) (sbase fuel : Nat)
    (hf : 2 * (ss.size + optSize rv + 1) ≤ fuel) (h : Agrees A sbase (encBody sbase ss rv)) :
    readBody fuel A (sbase + (encBody sbase ss rv).length - 1) = some (ss, rv) := by
  cases rv with
  | none =>
    simp only [optSize] at hf
    simp only [encBody, List.append_nil] at h ⊢
    have c0 := ctx_tail h rfl 0 (by simp)
    have c1 := ctx_tail h rfl 1 (by simp)
    have c2 := ctx_tail h rfl 2 (by simp)
    have ih := read_encStmts ss A sbase fuel (by omega) h.left
    rw [readBody, c0, c1, c2]
    simp [fn, fnRef, readOptExpr, ih]
  | some e =>
    simp only [optSize] at hf
    simp only [encBody] at h ⊢
    have c0 := ctx_tail h rfl 0 (by simp)
    have c1 := ctx_tail h rfl 1 (by simp)
    have c2 := ctx_tail h rfl 2 (by simp)
    have ih := read_encStmts ss A sbase fuel (by omega) h.left.left
    have ihe := read_encExpr e A (sbase + (encStmts sbase ss).1.length) fuel (by omega) h.left.right
    rw [readBody, c0, c1, c2]
    simp [fn, fnRef, readOptExpr, ih, ihe]

theorem encFnHead_length (base : Nat) (fl : Flags) (name : String) (ps : List (String × Ty)) (ret : Ty) (impl impl' : FN) :
    (encFnHead base fl name ps ret impl).length = (encFnHead base fl name ps ret impl').length := by
  simp [encFnHead]

theorem read_encFnHead_none (fl : Flags) (name : String) (ps : List (String × Ty)) (ret : Ty) (A : List FN) (base fuel : Nat)
    (hf : 2 * (typedSize ps + ret.depth + 1) ≤ fuel) (h : Agrees A base (encFnHead base fl name ps ret (fn .NoMoreItems))) :
    readDecl fuel A (base + (encFnHead base fl name ps ret (fn .NoMoreItems)).length - 1) = some (.fn fl name ps ret none) := by
  simp only [encFnHead] at h ⊢
  have c0 := ctx_tail h rfl 0 (by simp)
  have c1 := ctx_tail h rfl 1 (by simp)
  have c2 := ctx_tail h rfl 2 (by simp)
  have c3 := ctx_tail h rfl 3 (by simp)
  have c4 := ctx_tail h rfl 4 (by simp)
  have c5 := ctx_tail h rfl 5 (by simp)
  have ih := read_encTyped ps A base fuel (by omega) h.left.left
  have iht := read_encTy ret A (base + (encTyped base ps).1.length) fuel (by omega) h.left.right
  rw [readDecl, c0, c1, c2, c3, c4, c5]
  simp [fn, fnRef, fnText, fnFlags, ih, iht]

theorem read_encFnHead_some (fl : Flags) (name : String) (ps : List (String × Ty)) (ret : Ty) (A : List FN) (base fuel bi : Nat)
    (body : Stmts × Option Expr)
    (hf : 2 * (typedSize ps + ret.depth + 1) ≤ fuel) (h : Agrees A base (encFnHead base fl name ps ret (fnRef .Impl bi)))
    (hb : readBody fuel A bi = some body) :
    readDecl fuel A (base + (encFnHead base fl name ps ret (fnRef .Impl bi)).length - 1) = some (.fn fl name ps ret (some body)) := by
  simp only [encFnHead] at h ⊢
  have c0 := ctx_tail h rfl 0 (by simp)
  have c1 := ctx_tail h rfl 1 (by simp)
  have c2 := ctx_tail h rfl 2 (by simp)
  have c3 := ctx_tail h rfl 3 (by simp)
  have c4 := ctx_tail h rfl 4 (by simp)
  have c5 := ctx_tail h rfl 5 (by simp)
  have ih := read_encTyped ps A base fuel (by omega) h.left.left
  have iht := read_encTy ret A (base + (encTyped base ps).1.length) fuel (by omega) h.left.right
  rw [readDecl, c0, c1, c2, c3, c4, c5]
  simp [fn, fnRef, fnText, fnFlags, ih, iht, hb]

end Layout
