/-
  A checker for parser tables and its soundness.

  Potential of a parser state on a token list of length `N`:

      Φ s = (nodes pushed) + 4 · (N − cursor) + (1 if no private zone is open)

  `bd D p k` walks an action `p` once and computes, from the declared debts `D` of the
  nonterminals it calls, an upper bound on `Φ after − Φ before` for every way `p` can end
  normally and for every way it can end abnormally (error, or the model's fuel running
  out); `k` is what is known about the token most recently taken.  `runProg_sound` proves
  the bound for every token list, state and callee that respects `D`; `runNT_sound` closes
  the recursion.  The table of src/delta/parser.rs passes the check with debt (0, 0) for a
  declaration, hence `node_bound`.
-/
import PenneModel.Flat.Parser

namespace Flat

inductive Kn
  | unknown | isEos | real
  deriving DecidableEq, Repr

abbrev OI := Option Int

def oadd (a b : OI) : OI :=
  match a, b with
  | some x, some y => some (x + y)
  | _, _ => none

def omax (a b : OI) : OI :=
  match a, b with
  | none, b => b
  | a, none => a
  | some x, some y => some (max x y)

def ole (a : OI) (b : Int) : Bool :=
  match a with
  | none => true
  | some x => decide (x ≤ b)

def join (a b : OI × OI) : OI × OI := (omax a.1 b.1, omax a.2 b.2)

def shift (c : Int) (a : OI × OI) : OI × OI := (oadd (some c) a.1, oadd (some c) a.2)

def hasEos (ks : List Kind) : Bool := ks.contains .EndOfSource

/-- what is known about `last` after `p` ended normally -/
def after : Prog → Kn → Kn
  | .skip, k => k
  | .push _, k => k
  | .setPrivate, k => k
  | .setPublic, k => k
  | .seq a b, k => after b (after a k)
  | _, _ => .unknown

def bd (D : Nat → Int × Int) : Prog → Kn → OI × OI
  | .skip, _ => (some 0, none)
  | .push tags, _ => (some tags.length, none)
  | .seq a b, k =>
    let x := bd D a k
    let y := bd D b (after a k)
    (oadd x.1 y.1, omax x.2 (oadd x.1 y.2))
  | .take c, _ => join (shift (-4) (bd D c .real)) (bd D c .isEos)
  | .ifLast ks t e, k =>
    if hasEos ks then join (bd D t k) (bd D e k)
    else match k with
      | .isEos => bd D e .isEos
      | .real => join (bd D t .real) (bd D e .real)
      | .unknown => join (bd D t .real) (bd D e .unknown)
  | .ifPeek _ t e, k => join (bd D t k) (bd D e k)
  | .opt ks t e, k =>
    join (if hasEos ks then bd D t .unknown else shift (-4) (bd D t .real)) (bd D e k)
  | .call nt _, _ => (some (D nt).1, some (D nt).2)
  | .ifZero t e, k => join (bd D t k) (bd D e k)
  | .fail _ _, _ => (none, some 0)
  | .reserve _ q, k => bd D q k
  | .setPrivate, _ => (some 0, none)
  | .setPublic, _ => (some 2, none)

def checkNT (D : Nat → Int × Int) (tbl : Nat → Prog) (nt : Nat) : Bool :=
  let b := bd D (tbl nt) .unknown
  ole b.1 (D nt).1 && ole b.2 (D nt).2 && decide (0 ≤ (D nt).2)

/-! ### semantics of the bounds -/

/-- `x ≤ o` where `none` is "cannot happen" -/
def OLe (x : Int) (o : OI) : Prop := ∃ d, o = some d ∧ x ≤ d

theorem OLe.mono {x y : Int} {o : OI} (h : OLe x o) (hy : y ≤ x) : OLe y o := by
  obtain ⟨d, hd, hx⟩ := h
  exact ⟨d, hd, by omega⟩

theorem OLe.omax_left {x : Int} {a : OI} (b : OI) (h : OLe x a) : OLe x (omax a b) := by
  obtain ⟨d, hd, hx⟩ := h
  subst hd
  cases b with
  | none => exact ⟨d, rfl, hx⟩
  | some y => exact ⟨max d y, rfl, by omega⟩

theorem OLe.omax_right {x : Int} (a : OI) {b : OI} (h : OLe x b) : OLe x (omax a b) := by
  obtain ⟨d, hd, hx⟩ := h
  subst hd
  cases a with
  | none => exact ⟨d, rfl, hx⟩
  | some y => exact ⟨max y d, rfl, by omega⟩

theorem OLe.oadd {x y : Int} {a b : OI} (h1 : OLe x a) (h2 : OLe y b) : OLe (x + y) (oadd a b) := by
  obtain ⟨d1, hd1, hx⟩ := h1
  obtain ⟨d2, hd2, hy⟩ := h2
  subst hd1 hd2
  exact ⟨d1 + d2, rfl, by omega⟩

theorem OLe.of_ole {x : Int} {o : OI} {b : Int} (h : OLe x o) (hb : ole o b = true) : x ≤ b := by
  obtain ⟨d, hd, hx⟩ := h
  subst hd
  simp [ole] at hb
  omega

section Sound
variable (ts : List Kind)

/-- an open private zone has already paid for its marker; a closed one still owes it -/
def zoneTerm (b : Bool) : Int :=
  match b with
  | true => 0
  | false => 1

/-- the potential -/
def phi (s : PS) : Int := (s.out.length : Int) + 4 * ((ts.length - s.cur : Nat) : Int) + zoneTerm s.zone

def Sat (k : Kn) (s : PS) : Prop :=
  match k with
  | .unknown => True
  | .isEos => s.last = .EndOfSource
  | .real => s.last ≠ .EndOfSource

/-- how a run ended, for the purpose of the bound -/
def Good (D1 D2 : OI) (s : PS) (r : Res × PS) : Prop :=
  r.2.lim = s.lim ∧ (r.1 = .ok → OLe (phi ts r.2 - phi ts s) D1) ∧ (r.1 ≠ .ok → OLe (phi ts r.2 - phi ts s) D2)

def CalleeOK (D : Nat → Int × Int) (callee : Nat → Nat → PS → Res × PS) : Prop :=
  ∀ nt p s, s.lim ≤ ts.length → Good ts (some (D nt).1) (some (D nt).2) s (callee nt p s)

theorem peek_real {s : PS} (hl : s.lim ≤ ts.length) (h : peek ts s ≠ .EndOfSource) : s.cur < ts.length := by
  unfold peek at h
  split at h
  · omega
  · exact absurd rfl h

theorem phi_advance_le (s : PS) : phi ts (advance ts s) ≤ phi ts s := by
  simp only [phi, advance]
  have : ts.length - (s.cur + 1) ≤ ts.length - s.cur := by omega
  omega

theorem phi_advance_real {s : PS} (hl : s.lim ≤ ts.length) (h : peek ts s ≠ .EndOfSource) :
    phi ts (advance ts s) = phi ts s - 4 := by
  have hc := peek_real ts hl h
  simp only [phi, advance]
  have : ts.length - (s.cur + 1) + 1 = ts.length - s.cur := by omega
  omega

theorem not_mem_of_hasEos {ks : List Kind} (h : hasEos ks = false) {k : Kind} (hk : ks.contains k = true) :
    k ≠ .EndOfSource := by
  intro he
  subst he
  simp [hasEos] at h hk
  exact h hk

theorem runProg_sound (D : Nat → Int × Int) (callee : Nat → Nat → PS → Res × PS) (hc : CalleeOK ts D callee) :
    ∀ (p : Prog) (k : Kn) (param : Nat) (s : PS), s.lim ≤ ts.length → Sat k s →
      Good ts (bd D p k).1 (bd D p k).2 s (runProg ts callee p param s) ∧
      ((runProg ts callee p param s).1 = .ok → Sat (after p k) (runProg ts callee p param s).2) := by
  intro p
  induction p with
  | skip =>
    intro k param s _ hk
    simp only [runProg, bd, after]
    exact ⟨⟨rfl, fun _ => ⟨0, rfl, by simp⟩, fun h => absurd rfl h⟩, fun _ => hk⟩
  | push tags =>
    intro k param s _ hk
    simp only [runProg, bd, after]
    refine ⟨⟨rfl, fun _ => ⟨tags.length, rfl, ?_⟩, fun h => absurd rfl h⟩, fun _ => ?_⟩
    · simp only [phi, List.length_append, List.length_reverse]; omega
    · cases k <;> simpa [Sat] using hk
  | seq a b iha ihb =>
    intro k param s hl hk
    have ha := iha k param s hl hk
    simp only [runProg, bd, after]
    cases hra : runProg ts callee a param s with
    | mk r1 s1 =>
      rw [hra] at ha
      obtain ⟨⟨hlim1, hok1, herr1⟩, hsat1⟩ := ha
      cases r1 with
      | ok =>
        simp only
        have hl1 : s1.lim ≤ ts.length := by simp at hlim1; omega
        have hb := ihb (after a k) param s1 hl1 (hsat1 rfl)
        obtain ⟨⟨hlim2, hok2, herr2⟩, hsat2⟩ := hb
        refine ⟨⟨?_, ?_, ?_⟩, hsat2⟩
        · simp at hlim1; omega
        · intro h
          have := OLe.oadd (hok1 rfl) (hok2 h)
          exact this.mono (by simp only; omega)
        · intro h
          have := OLe.oadd (hok1 rfl) (herr2 h)
          exact (OLe.omax_right _ this).mono (by simp only; omega)
      | err e pos =>
        simp only
        refine ⟨⟨hlim1, fun h => Res.noConfusion h, fun _ => ?_⟩, fun h => Res.noConfusion h⟩
        exact OLe.omax_left _ (herr1 (by simp))
      | fuel =>
        simp only
        refine ⟨⟨hlim1, fun h => Res.noConfusion h, fun _ => ?_⟩, fun h => Res.noConfusion h⟩
        exact OLe.omax_left _ (herr1 (by simp))
  | take c ih =>
    intro k param s hl _
    simp only [runProg, bd, after, join, shift]
    have hl' : (advance ts s).lim ≤ ts.length := by simpa [advance] using hl
    by_cases hp : peek ts s = .EndOfSource
    · have hsat : Sat .isEos (advance ts s) := by simp [Sat, advance, hp]
      obtain ⟨⟨hlim, hok, herr⟩, _⟩ := ih .isEos param (advance ts s) hl' hsat
      have hphi := phi_advance_le ts s
      refine ⟨⟨by simpa [advance] using hlim, fun h => ?_, fun h => ?_⟩, fun _ => trivial⟩
      · exact (OLe.omax_right _ (hok h)).mono (by omega)
      · exact (OLe.omax_right _ (herr h)).mono (by omega)
    · have hsat : Sat .real (advance ts s) := by simpa [Sat, advance] using hp
      obtain ⟨⟨hlim, hok, herr⟩, _⟩ := ih .real param (advance ts s) hl' hsat
      have hphi := phi_advance_real ts hl hp
      refine ⟨⟨by simpa [advance] using hlim, fun h => ?_, fun h => ?_⟩, fun _ => trivial⟩
      · have := OLe.oadd (a := some (-4)) (x := -4) ⟨-4, rfl, by omega⟩ (hok h)
        exact (OLe.omax_left _ this).mono (by omega)
      · have := OLe.oadd (a := some (-4)) (x := -4) ⟨-4, rfl, by omega⟩ (herr h)
        exact (OLe.omax_left _ this).mono (by omega)
  | ifLast ks t e iht ihe =>
    intro k param s hl hk
    simp only [runProg, bd, after]
    by_cases hm : ks.contains s.last = true
    · simp only [hm, if_true]
      by_cases he : hasEos ks = true
      · simp only [he, if_true, join]
        obtain ⟨⟨hlim, hok, herr⟩, _⟩ := iht k param s hl hk
        exact ⟨⟨hlim, fun h => OLe.omax_left _ (hok h), fun h => OLe.omax_left _ (herr h)⟩, fun _ => trivial⟩
      · have he' : hasEos ks = false := by simpa using he
        have hreal : Sat .real s := not_mem_of_hasEos he' hm
        simp only [he']
        obtain ⟨⟨hlim, hok, herr⟩, _⟩ := iht .real param s hl hreal
        cases k with
        | isEos => exact absurd hk hreal
        | real =>
          exact ⟨⟨hlim, fun h => OLe.omax_left _ (hok h), fun h => OLe.omax_left _ (herr h)⟩, fun _ => trivial⟩
        | unknown =>
          exact ⟨⟨hlim, fun h => OLe.omax_left _ (hok h), fun h => OLe.omax_left _ (herr h)⟩, fun _ => trivial⟩
    · have hm' : ks.contains s.last = false := by simpa using hm
      simp only [hm']
      by_cases he : hasEos ks = true
      · simp only [he, if_true, join]
        obtain ⟨⟨hlim, hok, herr⟩, _⟩ := ihe k param s hl hk
        exact ⟨⟨hlim, fun h => OLe.omax_right _ (hok h), fun h => OLe.omax_right _ (herr h)⟩, fun _ => trivial⟩
      · have he' : hasEos ks = false := by simpa using he
        simp only [he']
        cases k with
        | isEos =>
          obtain ⟨⟨hlim, hok, herr⟩, _⟩ := ihe .isEos param s hl hk
          exact ⟨⟨hlim, hok, herr⟩, fun _ => trivial⟩
        | real =>
          obtain ⟨⟨hlim, hok, herr⟩, _⟩ := ihe .real param s hl hk
          exact ⟨⟨hlim, fun h => OLe.omax_right _ (hok h), fun h => OLe.omax_right _ (herr h)⟩, fun _ => trivial⟩
        | unknown =>
          obtain ⟨⟨hlim, hok, herr⟩, _⟩ := ihe .unknown param s hl hk
          exact ⟨⟨hlim, fun h => OLe.omax_right _ (hok h), fun h => OLe.omax_right _ (herr h)⟩, fun _ => trivial⟩
  | ifPeek ks t e iht ihe =>
    intro k param s hl hk
    simp only [runProg, bd, after, join]
    by_cases hm : ks.contains (peek ts s) = true
    · simp only [hm, if_true]
      obtain ⟨⟨hlim, hok, herr⟩, _⟩ := iht k param s hl hk
      exact ⟨⟨hlim, fun h => OLe.omax_left _ (hok h), fun h => OLe.omax_left _ (herr h)⟩, fun _ => trivial⟩
    · have hm' : ks.contains (peek ts s) = false := by simpa using hm
      simp only [hm']
      obtain ⟨⟨hlim, hok, herr⟩, _⟩ := ihe k param s hl hk
      exact ⟨⟨hlim, fun h => OLe.omax_right _ (hok h), fun h => OLe.omax_right _ (herr h)⟩, fun _ => trivial⟩
  | opt ks t e iht ihe =>
    intro k param s hl hk
    simp only [runProg, bd, after, join]
    have hl' : (advance ts s).lim ≤ ts.length := by simpa [advance] using hl
    by_cases hm : ks.contains (peek ts s) = true
    · simp only [hm, if_true]
      by_cases he : hasEos ks = true
      · simp only [he, if_true]
        obtain ⟨⟨hlim, hok, herr⟩, _⟩ := iht .unknown param (advance ts s) hl' trivial
        have hphi := phi_advance_le ts s
        refine ⟨⟨by simpa [advance] using hlim, fun h => ?_, fun h => ?_⟩, fun _ => trivial⟩
        · exact (OLe.omax_left _ (hok h)).mono (by omega)
        · exact (OLe.omax_left _ (herr h)).mono (by omega)
      · have he' : hasEos ks = false := by simpa using he
        have hp : peek ts s ≠ .EndOfSource := not_mem_of_hasEos he' hm
        have hsat : Sat .real (advance ts s) := by simpa [Sat, advance] using hp
        simp only [he', shift]
        obtain ⟨⟨hlim, hok, herr⟩, _⟩ := iht .real param (advance ts s) hl' hsat
        have hphi := phi_advance_real ts hl hp
        refine ⟨⟨by simpa [advance] using hlim, fun h => ?_, fun h => ?_⟩, fun _ => trivial⟩
        · have := OLe.oadd (a := some (-4)) (x := -4) ⟨-4, rfl, by omega⟩ (hok h)
          exact (OLe.omax_left _ this).mono (by omega)
        · have := OLe.oadd (a := some (-4)) (x := -4) ⟨-4, rfl, by omega⟩ (herr h)
          exact (OLe.omax_left _ this).mono (by omega)
    · have hm' : ks.contains (peek ts s) = false := by simpa using hm
      simp only [hm']
      obtain ⟨⟨hlim, hok, herr⟩, _⟩ := ihe k param s hl hk
      exact ⟨⟨hlim, fun h => OLe.omax_right _ (hok h), fun h => OLe.omax_right _ (herr h)⟩, fun _ => trivial⟩
  | call nt arg =>
    intro k param s hl _
    simp only [runProg, bd, after]
    exact ⟨hc nt (arg.eval param) s hl, fun _ => trivial⟩
  | ifZero t e iht ihe =>
    intro k param s hl hk
    simp only [runProg, bd, after, join]
    by_cases hz : param = 0
    · simp only [hz, if_true]
      obtain ⟨⟨hlim, hok, herr⟩, _⟩ := iht k 0 s hl hk
      exact ⟨⟨hlim, fun h => OLe.omax_left _ (hok h), fun h => OLe.omax_left _ (herr h)⟩, fun _ => trivial⟩
    · simp only [hz, if_false]
      obtain ⟨⟨hlim, hok, herr⟩, _⟩ := ihe k param s hl hk
      exact ⟨⟨hlim, fun h => OLe.omax_right _ (hok h), fun h => OLe.omax_right _ (herr h)⟩, fun _ => trivial⟩
  | fail e back =>
    intro k param s _ _
    simp only [runProg, bd, after]
    exact ⟨⟨rfl, fun h => Res.noConfusion h, fun _ => ⟨0, rfl, by simp⟩⟩, fun h => Res.noConfusion h⟩
  | reserve ks q ih =>
    intro k param s hl hk
    simp only [runProg, bd, after]
    have hl1 : min s.lim (findNext ts (fun k => ks.contains k) s.cur) ≤ ts.length := by omega
    obtain ⟨⟨_, hok, herr⟩, _⟩ := ih k param { s with lim := min s.lim (findNext ts (fun k => ks.contains k) s.cur) } hl1
      (by cases k <;> simpa [Sat] using hk)
    refine ⟨⟨rfl, fun h => ?_, fun h => ?_⟩, fun _ => trivial⟩
    · exact (hok h).mono (by simp only [phi]; omega)
    · exact (herr h).mono (by simp only [phi]; omega)
  | setPrivate =>
    intro k param s _ hk
    simp only [runProg, bd, after]
    by_cases hz : s.zone = true
    · simp only [hz, if_true]
      exact ⟨⟨rfl, fun _ => ⟨0, rfl, by simp⟩, fun h => absurd rfl h⟩, fun _ => hk⟩
    · have hz' : s.zone = false := by simpa using hz
      simp only [hz', Bool.false_eq_true, ↓reduceIte]
      refine ⟨⟨rfl, fun _ => ⟨0, rfl, ?_⟩, fun h => absurd rfl h⟩, fun _ => ?_⟩
      · simp only [phi, hz', zoneTerm, List.length_cons]; omega
      · cases k <;> simpa [Sat] using hk
  | setPublic =>
    intro k param s _ hk
    simp only [runProg, bd, after]
    by_cases hz : s.zone = true
    · simp only [hz, if_true]
      refine ⟨⟨rfl, fun _ => ⟨2, rfl, ?_⟩, fun h => absurd rfl h⟩, fun _ => ?_⟩
      · simp only [phi, hz, zoneTerm, List.length_cons]; omega
      · cases k <;> simpa [Sat] using hk
    · have hz' : s.zone = false := by simpa using hz
      simp only [hz', Bool.false_eq_true, ↓reduceIte]
      exact ⟨⟨rfl, fun _ => ⟨2, rfl, by simp⟩, fun h => absurd rfl h⟩, fun _ => hk⟩

/-- every nonterminal of a checked table respects its declared debts, for every fuel -/
theorem runNT_sound (D : Nat → Int × Int) (tbl : Nat → Prog) (hchk : ∀ nt, checkNT D tbl nt = true) :
    ∀ fuel, CalleeOK ts D (runNT ts tbl fuel) := by
  intro fuel
  induction fuel with
  | zero =>
    intro nt p s _
    have h := hchk nt
    simp only [checkNT, Bool.and_eq_true, decide_eq_true_eq] at h
    simp only [runNT]
    exact ⟨rfl, fun h => Res.noConfusion h, fun _ => ⟨(D nt).2, rfl, by show phi ts s - phi ts s ≤ _; omega⟩⟩
  | succ fuel ih =>
    intro nt p s hl
    have h := hchk nt
    simp only [checkNT, Bool.and_eq_true, decide_eq_true_eq] at h
    obtain ⟨⟨h1, h2⟩, _⟩ := h
    simp only [runNT]
    obtain ⟨⟨hlim, hok, herr⟩, _⟩ := runProg_sound ts D (runNT ts tbl fuel) ih (tbl nt) .unknown p s hl trivial
    exact ⟨hlim, fun hr => ⟨_, rfl, (hok hr).of_ole h1⟩, fun hr => ⟨_, rfl, (herr hr).of_ole h2⟩⟩

end Sound

end Flat

/-! ### the cursor never passes the end of the tokens

`Tokens::take` increments the cursor unconditionally, and `base_tokens_from` / `skip_until` index the
token array with it.  A table is cursor-safe when a token that turns out to be `EndOfSource` makes the
action fail at once (`failsOnEos`), and `consume_optional` never asks for `EndOfSource`. -/

namespace Flat

def failsOnEos : Prog → Bool
  | .fail _ _ => true
  | .ifLast ks t e => if hasEos ks then failsOnEos t && failsOnEos e else failsOnEos e
  | .seq a _ => failsOnEos a
  | _ => false

def curOK : Prog → Bool
  | .seq a b => curOK a && curOK b
  | .take c => failsOnEos c && curOK c
  | .ifLast _ t e => curOK t && curOK e
  | .ifPeek _ t e => curOK t && curOK e
  | .opt ks t e => !hasEos ks && curOK t && curOK e
  | .ifZero t e => curOK t && curOK e
  | .reserve _ q => curOK q
  | _ => true

section Cursor
variable (ts : List Kind)

theorem failsOnEos_run (callee : Nat → Nat → PS → Res × PS) :
    ∀ (p : Prog) (param : Nat) (s : PS), failsOnEos p = true → s.last = .EndOfSource →
      (runProg ts callee p param s).1 ≠ .ok ∧ (runProg ts callee p param s).2 = s := by
  intro p
  induction p with
  | fail e back => intro param s _ _; simp [runProg]
  | ifLast ks t e iht ihe =>
    intro param s hf hl
    simp only [failsOnEos] at hf
    simp only [runProg]
    by_cases he : hasEos ks = true
    · simp only [he, if_true, Bool.and_eq_true] at hf
      split
      · exact iht param s hf.1 hl
      · exact ihe param s hf.2 hl
    · have he' : hasEos ks = false := by simpa using he
      simp only [he'] at hf
      have : ks.contains s.last = false := by
        rw [hl]; simpa [hasEos] using he'
      simp only [this]
      exact ihe param s hf hl
  | seq a b iha _ =>
    intro param s hf hl
    simp only [failsOnEos] at hf
    have := iha param s hf hl
    simp only [runProg]
    cases hr : runProg ts callee a param s with
    | mk r1 s1 =>
      rw [hr] at this
      cases r1 with
      | ok => exact absurd rfl this.1
      | err e pos => exact this
      | fuel => exact this
  | skip => intro _ _ hf; simp [failsOnEos] at hf
  | push _ => intro _ _ hf; simp [failsOnEos] at hf
  | take _ _ => intro _ _ hf; simp [failsOnEos] at hf
  | ifPeek _ _ _ _ _ => intro _ _ hf; simp [failsOnEos] at hf
  | opt _ _ _ _ _ => intro _ _ hf; simp [failsOnEos] at hf
  | call _ _ => intro _ _ hf; simp [failsOnEos] at hf
  | ifZero _ _ _ _ => intro _ _ hf; simp [failsOnEos] at hf
  | reserve _ _ _ => intro _ _ hf; simp [failsOnEos] at hf
  | setPrivate => intro _ _ hf; simp [failsOnEos] at hf
  | setPublic => intro _ _ hf; simp [failsOnEos] at hf

/-- ends at or before `E` when normal, at most one past it otherwise -/
def CurGood (E : Nat) (r : Res × PS) : Prop := (r.1 = .ok → r.2.cur ≤ E) ∧ r.2.cur ≤ E + 1

def CalleeCur (E : Nat) (callee : Nat → Nat → PS → Res × PS) : Prop :=
  ∀ nt p s, s.cur ≤ E → CurGood E (callee nt p s)

theorem peek_lt {E : Nat} (hE : ts.getD E .EndOfSource = .EndOfSource) {s : PS} (hs : s.cur ≤ E)
    (hp : peek ts s ≠ .EndOfSource) : s.cur < E := by
  by_cases h : s.cur = E
  · exfalso
    apply hp
    unfold peek
    split
    · rw [h]; exact hE
    · rfl
  · omega

theorem runProg_cursor (E : Nat) (hE : ts.getD E .EndOfSource = .EndOfSource)
    (callee : Nat → Nat → PS → Res × PS) (hc : CalleeCur E callee) :
    ∀ (p : Prog) (param : Nat) (s : PS), curOK p = true → s.cur ≤ E → CurGood E (runProg ts callee p param s) := by
  intro p
  induction p with
  | skip => intro param s _ hs; exact ⟨fun _ => hs, by simp only [runProg]; omega⟩
  | push tags => intro param s _ hs; exact ⟨fun _ => hs, by simp only [runProg]; omega⟩
  | seq a b iha ihb =>
    intro param s hk hs
    simp only [curOK, Bool.and_eq_true] at hk
    have ha := iha param s hk.1 hs
    simp only [runProg]
    cases hr : runProg ts callee a param s with
    | mk r1 s1 =>
      rw [hr] at ha
      cases r1 with
      | ok => exact ihb param s1 hk.2 (ha.1 rfl)
      | err e pos => exact ⟨fun h => Res.noConfusion h, ha.2⟩
      | fuel => exact ⟨fun h => Res.noConfusion h, ha.2⟩
  | take c ih =>
    intro param s hk hs
    simp only [curOK, Bool.and_eq_true] at hk
    simp only [runProg]
    by_cases hp : peek ts s = .EndOfSource
    · have := failsOnEos_run ts callee c param (advance ts s) hk.1 (by simp [advance, hp])
      refine ⟨fun h => absurd h this.1, ?_⟩
      rw [this.2]; simp only [advance]; omega
    · have hlt := peek_lt ts hE hs hp
      exact ih param (advance ts s) hk.2 (by simp only [advance]; omega)
  | ifLast ks t e iht ihe =>
    intro param s hk hs
    simp only [curOK, Bool.and_eq_true] at hk
    simp only [runProg]
    split
    · exact iht param s hk.1 hs
    · exact ihe param s hk.2 hs
  | ifPeek ks t e iht ihe =>
    intro param s hk hs
    simp only [curOK, Bool.and_eq_true] at hk
    simp only [runProg]
    split
    · exact iht param s hk.1 hs
    · exact ihe param s hk.2 hs
  | opt ks t e iht ihe =>
    intro param s hk hs
    simp only [curOK, Bool.and_eq_true, Bool.not_eq_true'] at hk
    simp only [runProg]
    split
    · rename_i hm
      have hp : peek ts s ≠ .EndOfSource := not_mem_of_hasEos hk.1.1 hm
      have hlt := peek_lt ts hE hs hp
      exact iht param (advance ts s) hk.1.2 (by simp only [advance]; omega)
    · exact ihe param s hk.2 hs
  | call nt arg => intro param s _ hs; exact hc nt (arg.eval param) s hs
  | ifZero t e iht ihe =>
    intro param s hk hs
    simp only [curOK, Bool.and_eq_true] at hk
    simp only [runProg]
    split
    · exact iht param s hk.1 hs
    · exact ihe param s hk.2 hs
  | fail e back => intro param s _ hs; exact ⟨fun h => Res.noConfusion h, by simp only [runProg]; omega⟩
  | reserve ks q ih =>
    intro param s hk hs
    simp only [curOK] at hk
    have := ih param { s with lim := min s.lim (findNext ts (fun k => ks.contains k) s.cur) } hk hs
    exact ⟨fun h => this.1 h, this.2⟩
  | setPrivate =>
    intro param s _ hs
    simp only [runProg]
    split <;> exact ⟨fun _ => hs, by simp only; omega⟩
  | setPublic =>
    intro param s _ hs
    simp only [runProg]
    split <;> exact ⟨fun _ => hs, by simp only; omega⟩

theorem runNT_cursor (E : Nat) (hE : ts.getD E .EndOfSource = .EndOfSource) (tbl : Nat → Prog)
    (hchk : ∀ nt, curOK (tbl nt) = true) : ∀ fuel, CalleeCur E (runNT ts tbl fuel) := by
  intro fuel
  induction fuel with
  | zero => intro nt p s hs; exact ⟨fun h => Res.noConfusion h, by simp only [runNT]; omega⟩
  | succ fuel ih =>
    intro nt p s hs
    simp only [runNT]
    exact runProg_cursor ts E hE (runNT ts tbl fuel) ih (tbl nt) p s (hchk nt) hs

end Cursor

end Flat
