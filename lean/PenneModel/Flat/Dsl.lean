/-
  M-Flat (cost model): the second-generation recursive-descent parser as *data*.

  `Prog` is a small language of parser actions (take a token, branch on it, push
  nodes, call a nonterminal, fail); `Flat.table` (Parser.lean) writes
  src/delta/parser.rs in it, one nonterminal per function / loop.  The
  interpreter below runs a table on a list of token kinds and yields exactly
  what the real parser leaves in its buffers: the sequence of node variants
  pushed (also after errors), the stored errors, the finished declarations.

  Because the parser is data, properties that must hold on every path of every
  function (C15: nodes pushed ≤ 4·tokens + 6; the cursor never passes the end)
  are decided by a checker that walks the table once, and a generic soundness
  theorem (Check.lean) lifts the checker's verdict to every run on every token
  list.
-/

namespace Flat

/-- `BaseToken` of src/delta/lexer.rs, same names. -/
inductive Kind
  | EndOfSource | ParenLeft | ParenRight | BraceLeft | BraceRight | BracketLeft | BracketRight
  | AngleLeft | AngleRight | Pipe | Ampersand | Caret | Exclamation | Placeholder | Plus | Minus
  | Times | Divide | Modulo | Colon | Semicolon | Dot | Comma | Assignment
  | Equals | DoesNotEqual | IsGE | IsLE | ShiftLeft | ShiftRight | Arrow | PipeForType | Dots
  | Fn | Var | Const | If | Goto | Loop | Return | Else | Cast | As | Import | Pub | Extern | Struct
  | Word8 | Word16 | Word32 | Word64 | Word128
  | ValueTypeKeyword | Identifier | Builtin
  | NakedDecimal | BitInteger | SuffixedInteger | CharLiteral | BoolLiteral | StringLiteral
  | Error
  deriving DecidableEq, Repr, Inhabited

def Kind.all : List Kind :=
  [.EndOfSource, .ParenLeft, .ParenRight, .BraceLeft, .BraceRight, .BracketLeft, .BracketRight,
   .AngleLeft, .AngleRight, .Pipe, .Ampersand, .Caret, .Exclamation, .Placeholder, .Plus, .Minus,
   .Times, .Divide, .Modulo, .Colon, .Semicolon, .Dot, .Comma, .Assignment,
   .Equals, .DoesNotEqual, .IsGE, .IsLE, .ShiftLeft, .ShiftRight, .Arrow, .PipeForType, .Dots,
   .Fn, .Var, .Const, .If, .Goto, .Loop, .Return, .Else, .Cast, .As, .Import, .Pub, .Extern, .Struct,
   .Word8, .Word16, .Word32, .Word64, .Word128,
   .ValueTypeKeyword, .Identifier, .Builtin,
   .NakedDecimal, .BitInteger, .SuffixedInteger, .CharLiteral, .BoolLiteral, .StringLiteral, .Error]

def Kind.name (k : Kind) : String := (reprStr k).replace "Flat.Kind." ""

def Kind.ofName (s : String) : Option Kind := Kind.all.find? (fun k => k.name == s)

/-- Variants of `ParseNode` as the parser pushes them.  `ListItem` stands for the
    `UnpatchedListItem` that `push_list_item` pushes and later patches, `Impl` for the
    slot `push_unfinished_impl` pushes, `PrivateZone` for `EndlessPrivateZone` (later
    patched to `StartPrivateZone`). -/
inductive Tag
  | NoMoreItems | DeclarationFlags | FunctionDeclaration | ConstantDeclaration | StructureDeclaration
  | ImportDeclaration | FunctionBody | StructuralType | Identifier | IdentifierAndType
  | IdentifierAndExpression | VariableDeclaration | Assignment | Loop | Goto | Label | MethodCall
  | FunctionCall | Parenthesized | Comparison | ComparisonOp | Binary | BinaryOp | Unary | UnaryOp
  | BooleanLiteral | CharLiteral | UntypedIntegerLiteral | TypedIntegerLiteral | SimpleStringLiteral
  | CompositeStringLiteral | ArrayLiteral | Structural | Deref | DerefAddressDepth | DerefStepElement
  | DerefStepMember | BitCast | TypeCast | LengthOf | SizeOf | SimpleValueType | CompositeValueType
  | ArrayVT | ArrayWithNamedLengthVT | SliceVT | EndlessArrayVT | ArraylikeVT | UnresolvedStructOrWordVT
  | PointerVT | ViewVT | EndOfSpan | Then | ThenElse | If | Block | Item | List | ListItem | Impl
  | PrivateZone | EndPrivateZone
  deriving DecidableEq, Repr, Inhabited

def Tag.name (t : Tag) : String := (reprStr t).replace "Flat.Tag." ""

/-- `ParsingError` variants the second-generation parser produces. -/
inductive PErr
  | unexpectedToken | semicolonAfterIdentifier | missingConstantType | missingParameterType
  | missingMemberType | maxDepth
  deriving DecidableEq, Repr, Inhabited

/-- argument of a call: nonterminals take one counter (depth budgets, "is public") -/
inductive Arg
  | const (n : Nat) | same | dec
  deriving Repr

def Arg.eval (a : Arg) (p : Nat) : Nat :=
  match a with
  | .const n => n
  | .same => p
  | .dec => p - 1

inductive Prog
  | skip
  | push (tags : List Tag)
  | seq (a b : Prog)
  /-- `tokens.take()`: remember the token in `last`, advance, continue with `k` -/
  | take (k : Prog)
  /-- branch on the token most recently taken -/
  | ifLast (ks : List Kind) (t e : Prog)
  /-- `match tokens.peek()` without consuming -/
  | ifPeek (ks : List Kind) (t e : Prog)
  /-- `consume_optional` / peek-then-take: if the next token is in `ks`, take it and do `t`, else `e` -/
  | opt (ks : List Kind) (t e : Prog)
  | call (nt : Nat) (arg : Arg)
  /-- branch on the counter of the current nonterminal -/
  | ifZero (t e : Prog)
  /-- return `Err`; the token of the error is `back` positions before the cursor -/
  | fail (e : PErr) (back : Nat)
  /-- `with_reservation`: run `p` on the tokens up to the first token in `ks` -/
  | reserve (ks : List Kind) (p : Prog)
  | setPrivate
  | setPublic
  deriving Repr, Inhabited

structure PS where
  cur : Nat
  lim : Nat
  last : Kind
  zone : Bool
  /-- nodes pushed so far, most recent first -/
  out : List Tag
  deriving Repr, Inhabited

inductive Res
  | ok
  | err (e : PErr) (pos : Nat)
  | fuel
  deriving Repr, DecidableEq, Inhabited

section Run
variable (ts : List Kind)

def peek (s : PS) : Kind := if s.cur < s.lim then ts.getD s.cur .EndOfSource else .EndOfSource

/-- `Tokens::skip_until` (bounded by the length; the real one panics past the end) -/
def findNextFrom (p : Kind → Bool) : Nat → Nat → Nat
  | 0, i => i
  | fuel + 1, i =>
    if i < ts.length then
      let k := ts.getD i .EndOfSource
      if p k || k == .EndOfSource then i else findNextFrom p fuel (i + 1)
    else i

def findNext (p : Kind → Bool) (from_ : Nat) : Nat := findNextFrom ts p (ts.length - from_) from_

def advance (s : PS) : PS := { s with last := peek ts s, cur := s.cur + 1 }

def runProg (callee : Nat → Nat → PS → Res × PS) : Prog → Nat → PS → Res × PS
  | .skip, _, s => (.ok, s)
  | .push tags, _, s => (.ok, { s with out := tags.reverse ++ s.out })
  | .seq a b, p, s =>
    match runProg callee a p s with
    | (.ok, s') => runProg callee b p s'
    | r => r
  | .take k, p, s => runProg callee k p (advance ts s)
  | .ifLast ks t e, p, s => if ks.contains s.last then runProg callee t p s else runProg callee e p s
  | .ifPeek ks t e, p, s => if ks.contains (peek ts s) then runProg callee t p s else runProg callee e p s
  | .opt ks t e, p, s =>
    if ks.contains (peek ts s) then runProg callee t p (advance ts s) else runProg callee e p s
  | .call nt arg, p, s => callee nt (arg.eval p) s
  | .ifZero t e, p, s => if p = 0 then runProg callee t p s else runProg callee e p s
  | .fail e back, _, s => (.err e (s.cur - back), s)
  | .reserve ks q, p, s =>
    let r := runProg callee q p { s with lim := min s.lim (findNext ts (fun k => ks.contains k) s.cur) }
    (r.1, { r.2 with lim := s.lim })
  | .setPrivate, _, s => if s.zone then (.ok, s) else (.ok, { s with zone := true, out := .PrivateZone :: s.out })
  | .setPublic, _, s => if s.zone then (.ok, { s with zone := false, out := .EndPrivateZone :: s.out }) else (.ok, s)

variable (tbl : Nat → Prog)

def runNT : Nat → Nat → Nat → PS → Res × PS
  | 0, _, _, s => (.fuel, s)
  | fuel + 1, nt, p, s => runProg ts (runNT fuel) (tbl nt) p s

end Run

end Flat
