import PenneModel.Sexp
/-
  C17 — model of `ParseTree::build_header_nodes` and `ParseNode::convert_for_head`
  (src/delta/parser/parse_tree.rs, parse_node.rs).  Nodes are abstracted to what the header builder looks at:
  nodes that hold a `NodeId`, the declaration flags, the function-implementation slot, and the three zone markers;
  everything else is `plain`.
-/
namespace Flat

inductive Node where
  | plain (tag : String)
  | ref (tag : String) (target : Nat)     -- ThenElse / If / Block / Item / List / ListItem
  | flags (pub : Bool) (rest : String)    -- DeclarationFlags
  | funImpl (body : Nat)                  -- FunctionImpl { body }
  | startPriv (stop : Nat)                -- StartPrivateZone { end }
  | endPriv (start : Nat)                 -- EndPrivateZone { start }
  | endless                               -- EndlessPrivateZone
  deriving DecidableEq, Repr

/-- `convert_for_head(num_skipped_nodes)` -/
def convert (skipped : Nat) : Node → Node
  | .ref tag t => .ref tag (t - skipped)
  | .flags _ rest => .flags false rest
  | .funImpl _ => .plain "NoMoreItems"
  | n => n

/-- `build_header_nodes`: `i` = index of the head of the remaining list, fuel = its length -/
def headerFrom : Nat → Nat → Nat → List Node → List Node
  | 0, _, _, _ => []
  | _, _, _, [] => []
  | fuel + 1, i, skipped, n :: rest =>
    match n with
    | .startPriv stop => headerFrom fuel (stop + 1) (skipped + (stop + 1 - i)) (rest.drop (stop - i))
    | .endless => []
    | .endPriv _ => []
    | n => convert skipped n :: headerFrom fuel (i + 1) skipped rest

def buildHeader (nodes : List Node) : List Node := headerFrom nodes.length 0 0 nodes

open Sexp in
def nodeOfSexp : Sexp → Option Node
  | .list [.atom "plain", .str t] => some (.plain (String.ofList t))
  | .list [.atom "ref", .str t, n] => do some (.ref (String.ofList t) (← n.toNat?))
  | .list [.atom "flags", .atom p, .str r] => some (.flags (p == "1") (String.ofList r))
  | .list [.atom "funimpl", n] => do some (.funImpl (← n.toNat?))
  | .list [.atom "start", n] => do some (.startPriv (← n.toNat?))
  | .list [.atom "end", n] => do some (.endPriv (← n.toNat?))
  | .list [.atom "endless"] => some .endless
  | _ => none

def showNode : Node → String
  | .plain t => "(plain " ++ t.quote ++ ")"
  | .ref t n => "(ref " ++ t.quote ++ " " ++ toString n ++ ")"
  | .flags p r => "(flags " ++ (if p then "1" else "0") ++ " " ++ r.quote ++ ")"
  | .funImpl n => "(funimpl " ++ toString n ++ ")"
  | .startPriv n => "(start " ++ toString n ++ ")"
  | .endPriv n => "(end " ++ toString n ++ ")"
  | .endless => "(endless)"

/-! ### the layout the parser produces, one segment per zone -/

/-- a node of a public segment, with `NodeId`s relative to the start of the segment -/
inductive RNode where
  | plain (tag : String)
  | ref (tag : String) (off : Nat)
  | flags (pub : Bool) (rest : String)
  | funImpl (bodyOff : Nat)
  deriving DecidableEq, Repr

def RNode.abs (p : Nat) : RNode → Node
  | .plain t => .plain t
  | .ref t o => .ref t (p + o)
  | .flags b r => .flags b r
  | .funImpl o => .funImpl (p + o)

/-- what the header keeps of a public node: flag cleared, body slot emptied -/
def RNode.head (p : Nat) : RNode → Node
  | .plain t => .plain t
  | .ref t o => .ref t (p + o)
  | .flags _ r => .flags false r
  | .funImpl _ => .plain "NoMoreItems"

inductive Seg where
  | pub (nodes : List RNode)       -- padding, public declarations, signatures of public functions
  | priv (content : List Node)     -- a private zone: private declarations, or the body of a public function
  deriving Repr

/-- the node array for a list of segments starting at absolute index `p`; a private zone that is not followed by
    anything public stays endless -/
def encode (p : Nat) : List Seg → List Node
  | [] => []
  | .pub ns :: rest => ns.map (RNode.abs p) ++ encode (p + ns.length) rest
  | [.priv content] => .endless :: content
  | .priv content :: rest =>
      .startPriv (p + 1 + content.length) :: content ++ [.endPriv p] ++ encode (p + content.length + 2) rest

/-- the header of the public interface alone -/
def encodeHead (p : Nat) : List Seg → List Node
  | [] => []
  | .pub ns :: rest => ns.map (RNode.head p) ++ encodeHead (p + ns.length) rest
  | .priv _ :: rest => encodeHead p rest

end Flat
