/-
  src/delta/parser.rs written in the action language of Dsl.lean, one nonterminal per
  function or loop, in the order of the source.  Loops become tail calls; the two depth
  budgets (MAX_ADDRESS_DEPTH, MAX_REFERENCE_DEPTH) become the counter argument; "is this
  declaration public" is the counter of `fnDecl`.  `peek` followed by `take` of the same
  token is written `opt`.
-/
import PenneModel.Flat.Dsl

namespace Flat
open Prog Kind

def nDecl := 0
def nDeclRest := 1
def nStructMembers := 2
def nMembersLoop := 3
def nFnDecl := 4
def nSignature := 5
def nParamsLoop := 6
def nType := 7
def nInnerType := 8
def nFnBodyLoop := 9
def nBlockLoop := 10
def nStmt := 11
def nArgsLoop := 12
def nStructuralLoop := 13
def nThen := 14
def nComparison := 15
def nExpr := 16
def nAddLoop := 17
def nBitwiseRest := 18
def nBwAmp := 19
def nBwPipe := 20
def nBwCaret := 21
def nShiftRest := 22
def nMult := 23
def nMultLoop := 24
def nSingular := 25
def nAsLoop := 26
def nUnary := 27
def nPrimary := 28
def nReference := 29
def nStepsLoop := 30
def nAmpLoop := 31
def nStrLoop := 32
def nArrayLoop := 33
def nAssignRest := 34
def numNT := 35

/-- `a; b; c` -/
def seqs : List Prog → Prog
  | [] => skip
  | [p] => p
  | p :: ps => seq p (seqs ps)

/-- `tokens.consume(k)?` -/
def consume (k : Kind) : Prog := take (ifLast [k] skip (fail .unexpectedToken 1))

/-- `match taken { k1 => p1, k2 => p2, ..., _ => dflt }` -/
def cases (bs : List (List Kind × Prog)) (dflt : Prog) : Prog :=
  match bs with
  | [] => dflt
  | (ks, p) :: rest => ifLast ks p (cases rest dflt)

def call0 (nt : Nat) : Prog := call nt (.const 0)

/-- `[e, e, ...` loops of the shape "closing token? else item, list item, comma-or-close" -/
def commaLoop (close : Kind) (item : Prog) (self : Nat) : Prog :=
  opt [close] (push [.NoMoreItems])
    (seqs [item, push [.ListItem],
           opt [Comma] (call0 self) (seqs [consume close, push [.NoMoreItems]])])

def derefTail : Prog := push [.List, .Identifier, .DerefAddressDepth, .Deref]

/-- a composite inner type after its first token, which is in `last` (not a keyword, not a name) -/
def innerTypeRest : Prog :=
  cases [
    ([Ampersand], seqs [call0 nInnerType, push [.PointerVT]]),
    ([ParenLeft], seqs [call0 nInnerType, consume ParenRight, push [.ViewVT]]),
    ([BracketLeft], take (cases [
        ([BracketRight], seqs [call0 nInnerType, push [.ArraylikeVT]]),
        ([Colon], seqs [consume BracketRight, call0 nInnerType, push [.SliceVT]]),
        ([Dots], seqs [consume BracketRight, call0 nInnerType, push [.EndlessArrayVT]]),
        ([NakedDecimal], seqs [consume BracketRight, call0 nInnerType, push [.ArrayVT]]),
        ([Identifier], seqs [consume BracketRight, call0 nInnerType, push [.ArrayWithNamedLengthVT]])]
        (fail .unexpectedToken 1)))]
    (fail .unexpectedToken 1)

def declTail (t : Tag) : Prog := push [.Identifier, .DeclarationFlags, t]

def table (nt : Nat) : Prog :=
  match nt with
  -- parse_declaration
  | 0 => opt [Pub] (seqs [setPublic, call nDeclRest (.const 1)]) (seqs [setPrivate, call nDeclRest (.const 0)])
  | 1 => seqs [opt [Extern] skip skip,
      take (cases [
        -- parse_import_declaration
        ([Import], seqs [consume StringLiteral, consume Semicolon,
                         push [.SimpleStringLiteral, .DeclarationFlags, .ImportDeclaration]]),
        -- parse_constant_declaration
        ([Const], seqs [consume Identifier, opt [Colon] (call0 nType) (fail .missingConstantType 0),
                        consume Assignment, call0 nExpr, consume Semicolon,
                        push [.Item], declTail .ConstantDeclaration]),
        ([Fn], call nFnDecl .same),
        -- parse_struct_declaration
        ([Struct], seqs [consume Identifier, opt [Semicolon] (push [.NoMoreItems]) (call0 nStructMembers),
                         push [.List, .StructuralType], declTail .StructureDeclaration]),
        -- parse_word_declaration
        ([Word8, Word16, Word32, Word64, Word128],
                   seqs [consume Identifier, call0 nStructMembers,
                         push [.List, .StructuralType], declTail .StructureDeclaration])]
        (fail .unexpectedToken 1))]
  -- parse_struct_members
  | 2 => seqs [consume BraceLeft, call0 nMembersLoop]
  | 3 => commaLoop BraceRight
      (seqs [consume Identifier, opt [Colon] (call0 nType) (fail .missingMemberType 0), push [.IdentifierAndType]])
      nMembersLoop
  -- parse_function_declaration; counter = 1 iff public
  | 4 => seqs [consume Identifier, call0 nSignature,
      push [.Impl, .Item, .List], declTail .FunctionDeclaration,
      opt [Semicolon] skip
        (seqs [ifZero skip setPrivate, consume BraceLeft, call0 nFnBodyLoop, ifZero skip setPublic])]
  -- parse_rest_of_function_signature
  | 5 => seqs [consume ParenLeft, call0 nParamsLoop, opt [Arrow] (call0 nType) (push [.SimpleValueType])]
  | 6 => commaLoop ParenRight
      (seqs [consume Identifier, opt [Colon] (call0 nType) (fail .missingParameterType 0), push [.IdentifierAndType]])
      nParamsLoop
  -- parse_type: the composite wrapper is pushed iff the type spans several tokens
  | 7 => take (cases [
        ([ValueTypeKeyword], push [.SimpleValueType]),
        ([Identifier], push [.UnresolvedStructOrWordVT])]
        (seqs [innerTypeRest, push [.EndOfSpan, .CompositeValueType]]))
  -- parse_inner_type
  | 8 => take (cases [
        ([ValueTypeKeyword], push [.SimpleValueType]),
        ([Identifier], push [.UnresolvedStructOrWordVT])]
        innerTypeRest)
  -- parse_function_body (with the pushes its caller does with the result)
  | 9 => opt [BraceRight] (push [.NoMoreItems, .NoMoreItems, .List, .FunctionBody])
      (opt [Return] (seqs [push [.NoMoreItems], consume Colon, call0 nExpr, push [.Item, .List, .FunctionBody]])
        (seqs [call0 nStmt, push [.ListItem], call0 nFnBodyLoop]))
  -- parse_rest_of_block
  | 10 => opt [BraceRight] (push [.NoMoreItems]) (seqs [call0 nStmt, push [.ListItem], call0 nBlockLoop])
  -- parse_statement
  | 11 => take (cases [
        ([BraceLeft], seqs [call0 nBlockLoop, push [.Block]]),
        ([If], seqs [reserve [BraceLeft, Semicolon] (call0 nComparison), call0 nThen, push [.If]]),
        ([Loop], seqs [consume Semicolon, push [.Loop]]),
        ([Goto], seqs [opt [Return] skip (consume Identifier), consume Semicolon, push [.Identifier, .Goto]]),
        ([Var], seqs [consume Identifier,
            opt [Colon]
              (seqs [call0 nType,
                opt [Assignment]
                  (seqs [call0 nExpr, consume Semicolon, push [.Item, .Item, .VariableDeclaration]])
                  (seqs [consume Semicolon, push [.NoMoreItems, .Item, .VariableDeclaration]])])
              (opt [Assignment]
                  (seqs [call0 nExpr, consume Semicolon, push [.Item, .NoMoreItems, .VariableDeclaration]])
                  (seqs [consume Semicolon, push [.NoMoreItems, .NoMoreItems, .VariableDeclaration]]))]),
        ([Identifier],
            opt [Colon] (push [.Identifier, .Label])
              (opt [ParenLeft]
                (seqs [call0 nArgsLoop, consume Semicolon, push [.List, .Identifier, .MethodCall]])
                (seqs [call nStepsLoop (.const 128), derefTail, call0 nAssignRest]))),
        ([Builtin], seqs [consume ParenLeft, call0 nArgsLoop, consume Semicolon,
                          push [.List, .Identifier, .MethodCall]]),
        ([Ampersand], seqs [call nAmpLoop (.const 126), consume Identifier, call nStepsLoop (.const 128),
                            derefTail, call0 nAssignRest])]
        (fail .unexpectedToken 1))
  -- parse_rest_of_arguments
  | 12 => commaLoop ParenRight (call0 nExpr) nArgsLoop
  -- parse_rest_of_structural
  | 13 => opt [BraceRight] (push [.NoMoreItems])
      (seqs [consume Identifier,
             opt [Colon] (call0 nExpr) (seqs [push [.NoMoreItems], derefTail]),
             push [.IdentifierAndExpression, .ListItem],
             opt [Comma] (call0 nStructuralLoop) (seqs [consume BraceRight, push [.NoMoreItems]])])
  -- parse_then
  | 14 => seqs [call0 nStmt, opt [Else] (seqs [call0 nStmt, push [.ThenElse]]) (push [.Then])]
  -- parse_comparison
  | 15 => seqs [call0 nExpr,
      take (cases [([Equals, DoesNotEqual, AngleLeft, AngleRight, IsGE, IsLE],
                    seqs [call0 nExpr, push [.Item, .ComparisonOp, .Comparison]])]
        (fail .unexpectedToken 1))]
  -- parse_expression = parse_addition
  | 16 => seqs [call0 nMult, call0 nAddLoop]
  | 17 => ifPeek [Ampersand, Pipe, Caret] (call0 nBitwiseRest)
      (ifPeek [ShiftLeft, ShiftRight] (call0 nShiftRest)
        (opt [Plus, Minus] (seqs [call0 nMult, push [.Item, .BinaryOp, .Binary], call0 nAddLoop]) skip))
  -- parse_rest_of_bitwise_expression
  | 18 => take (cases [([Ampersand], call0 nBwAmp), ([Pipe], call0 nBwPipe), ([Caret], call0 nBwCaret)]
      (fail .unexpectedToken 1))
  | 19 => seqs [call0 nUnary, push [.Item, .BinaryOp, .Binary], opt [Ampersand] (call0 nBwAmp) skip]
  | 20 => seqs [call0 nUnary, push [.Item, .BinaryOp, .Binary], opt [Pipe] (call0 nBwPipe) skip]
  | 21 => seqs [call0 nUnary, push [.Item, .BinaryOp, .Binary], opt [Caret] (call0 nBwCaret) skip]
  -- parse_rest_of_bitshift_operation
  | 22 => take (cases [([ShiftLeft, ShiftRight], seqs [call0 nUnary, push [.Item, .BinaryOp, .Binary]])]
      (fail .unexpectedToken 1))
  -- parse_multiplication
  | 23 => seqs [call0 nSingular, call0 nMultLoop]
  | 24 => opt [Times, Divide, Modulo]
      (seqs [call0 nSingular, push [.Item, .BinaryOp, .Binary], call0 nMultLoop]) skip
  -- parse_singular_expression
  | 25 => seqs [opt [Cast] (seqs [call0 nUnary, push [.BitCast]]) (call0 nUnary), call0 nAsLoop]
  | 26 => opt [As] (seqs [call0 nType, push [.Item, .TypeCast], call0 nAsLoop]) skip
  -- parse_unary_expression
  | 27 => opt [PipeForType] (seqs [call0 nType, consume Pipe, push [.SizeOf]])
      (opt [Pipe] (seqs [call0 nReference, consume Pipe, push [.LengthOf]])
        (opt [Exclamation, Minus] (seqs [call0 nPrimary, push [.UnaryOp, .Unary]])
          (call0 nPrimary)))
  -- parse_primary_expression
  | 28 => take (cases [
        ([NakedDecimal, BitInteger], push [.UntypedIntegerLiteral]),
        ([SuffixedInteger], push [.SimpleValueType, .TypedIntegerLiteral]),
        ([CharLiteral], push [.CharLiteral]),
        ([BoolLiteral], push [.BooleanLiteral]),
        ([StringLiteral], opt [StringLiteral]
            (seqs [call0 nStrLoop, push [.EndOfSpan, .CompositeStringLiteral]])
            (push [.SimpleStringLiteral])),
        ([Ampersand], seqs [call nAmpLoop (.const 126), consume Identifier, call nStepsLoop (.const 128),
            derefTail, opt [Dots] (seqs [call0 nExpr, push [.Item, .BinaryOp, .Binary]]) skip]),
        ([Identifier],
            opt [ParenLeft] (seqs [call0 nArgsLoop, push [.List, .Identifier, .FunctionCall]])
              (opt [BraceLeft] (seqs [call0 nStructuralLoop, push [.List, .Structural]])
                (seqs [call nStepsLoop (.const 128), derefTail]))),
        ([Builtin], seqs [consume ParenLeft, call0 nArgsLoop, push [.List, .Identifier, .FunctionCall]]),
        ([BracketLeft], seqs [call0 nArrayLoop, push [.List, .ArrayLiteral]]),
        ([ParenLeft], seqs [call0 nExpr, consume ParenRight, push [.Parenthesized]])]
        (fail .unexpectedToken 1))
  -- parse_reference
  | 29 => seqs [call nAmpLoop (.const 127), consume Identifier, call nStepsLoop (.const 128), derefTail]
  -- parse_deref_steps_list; counter = steps still allowed
  | 30 => ifZero (fail .maxDepth 0)
      (opt [BracketLeft]
        (seqs [call0 nExpr, consume BracketRight, push [.DerefStepElement, .ListItem], call nStepsLoop .dec])
        (opt [Dot] (seqs [consume Identifier, push [.DerefStepMember, .ListItem], call nStepsLoop .dec])
          (push [.NoMoreItems])))
  -- `while consume_optional(Ampersand)`; counter = ampersands still allowed
  | 31 => opt [Ampersand] (ifZero (fail .maxDepth 0) (call nAmpLoop .dec)) skip
  | 32 => opt [StringLiteral] (call0 nStrLoop) skip
  | 33 => commaLoop BracketRight (call0 nExpr) nArrayLoop
  -- the rest of an assignment after its left-hand side
  | 34 => opt [Semicolon] (fail .semicolonAfterIdentifier 1)
      (seqs [consume Assignment, call0 nExpr, consume Semicolon, push [.Item, .Assignment]])
  | _ => fail .unexpectedToken 0

/-- `starts_declaration` -/
def startsDeclaration (k : Kind) : Bool :=
  [Pub, Extern, Import, Const, Fn, Struct, Word8, Word16, Word32, Word64, Word128].contains k

structure Parsed where
  nodes : List Tag
  decls : Nat
  errors : List (PErr × Nat)
  /-- the `assert_eq!` after the declaration loop fails -/
  assertFailed : Bool
  /-- a declaration ran out of model fuel (never happens; reported as a disagreement) -/
  outOfFuel : Bool
  deriving Repr

/-- `parser::parse`: padding, then at most (declaration-starting tokens + 2) declarations -/
def parseLoop (ts : List Kind) (fuel : Nat) : Nat → PS → Nat → List (PErr × Nat) → Bool → (PS × Nat × List (PErr × Nat) × Bool × Bool)
  | 0, s, d, es, oof => (s, d, es, peek ts { s with lim := ts.length } != .EndOfSource, oof)
  | budget + 1, s, d, es, oof =>
    let s := { s with lim := ts.length }
    if peek ts s == .EndOfSource then (s, d, es, false, oof)
    else
      let (r, s') := runNT ts table fuel nDecl 0 s
      let next := findNext ts startsDeclaration s'.cur
      let s'' := { s' with cur := next, lim := ts.length }
      match r with
      | .ok => parseLoop ts fuel budget s'' (d + 1) es oof
      | .err e pos => parseLoop ts fuel budget s'' d (es ++ [(e, pos)]) oof
      | .fuel => parseLoop ts fuel budget s'' d es true

def initState (ts : List Kind) : PS :=
  { cur := 0, lim := ts.length, last := .EndOfSource, zone := false,
    out := [.NoMoreItems, .NoMoreItems, .NoMoreItems, .NoMoreItems, .NoMoreItems] }

def parseAllWith (ts : List Kind) (fuel : Nat) : Parsed :=
  let budget := (ts.filter startsDeclaration).length + 2
  let (s, d, es, af, oof) := parseLoop ts fuel budget (initState ts) 0 [] false
  { nodes := s.out.reverse, decls := d, errors := es, assertFailed := af, outOfFuel := oof }

/-- six stack frames per token position suffice (`Props/C15.lean: parse_total`) -/
def parseAll (ts : List Kind) : Parsed := parseAllWith ts (6 * ts.length + 8)

end Flat
