/-
  The module level of the flat layout: declarations are pushed one after another, private zones are
  opened and closed around them (`set_private` / `set_public` patch the zone's start marker in place,
  and the body of a public function sits in a private zone of its own between the function's head and
  the next declaration).  `read_encModule`: reading every entry of the declaration list of the final
  buffer gives the module's declarations back — the later pushes and the in-place patches never touch
  the nodes a declaration is read from.
-/
import PenneModel.Flat.Reader

namespace Layout
open Flat (Tag)
open Syn

structure Reg where
  base : Nat
  ns : List FN

def Holds (A : List FN) (rs : List Reg) : Prop := ∀ r ∈ rs, Agrees A r.base r.ns

theorem Agrees.append_right {A : List FN} {base : Nat} {ns : List FN} (h : Agrees A base ns) (hb : base + ns.length ≤ A.length)
    (X : List FN) : Agrees (A ++ X) base ns := by
  intro k hk
  rw [List.getElem?_append_left (by omega)]
  exact h k hk

theorem Agrees.set_out {A : List FN} {base : Nat} {ns : List FN} (h : Agrees A base ns) {z : Nat}
    (hz : base + ns.length ≤ z ∨ z < base) (x : FN) : Agrees (A.set z x) base ns := by
  intro k hk
  rw [List.getElem?_set_ne (by omega)]
  exact h k hk

theorem Agrees.at_end (A ns : List FN) : Agrees (A ++ ns) A.length ns := by
  intro k _
  rw [List.getElem?_append_right (by omega)]
  congr 1; omega

structure Inv (b : Buf) (rs : List Reg) : Prop where
  holds : Holds b.nodes rs
  bound : ∀ r ∈ rs, r.base + r.ns.length ≤ b.nodes.length
  zone : ∀ z, b.zone = some z → z < b.nodes.length ∧ ∀ r ∈ rs, r.base + r.ns.length ≤ z ∨ z < r.base

theorem Inv.push {b : Buf} {rs : List Reg} (h : Inv b rs) (ns : List FN) :
    Inv (b.push ns) (rs ++ [⟨b.nodes.length, ns⟩]) := by
  refine ⟨?_, ?_, ?_⟩
  · intro r hr
    rcases List.mem_append.1 hr with hr | hr
    · exact (h.holds r hr).append_right (h.bound r hr) ns
    · simp only [List.mem_singleton] at hr
      subst hr
      exact Agrees.at_end b.nodes ns
  · intro r hr
    simp only [Buf.push, List.length_append]
    rcases List.mem_append.1 hr with hr | hr
    · have := h.bound r hr; omega
    · simp only [List.mem_singleton] at hr
      subst hr; simp
  · intro z hz
    have hz' : b.zone = some z := hz
    obtain ⟨h1, h2⟩ := h.zone z hz'
    refine ⟨by simp only [Buf.push, List.length_append]; omega, ?_⟩
    intro r hr
    rcases List.mem_append.1 hr with hr | hr
    · exact h2 r hr
    · simp only [List.mem_singleton] at hr
      subst hr
      right; exact h1

theorem Inv.setPrivate {b : Buf} {rs : List Reg} (h : Inv b rs) : Inv b.setPrivate rs := by
  unfold Buf.setPrivate
  split
  · exact h
  · refine ⟨?_, ?_, ?_⟩
    · intro r hr
      exact (h.holds r hr).append_right (h.bound r hr) _
    · intro r hr
      have := h.bound r hr
      simp only [List.length_append]; omega
    · intro z hz
      simp only [Option.some.injEq] at hz
      subst hz
      refine ⟨by simp, ?_⟩
      intro r hr
      left; exact h.bound r hr

theorem Inv.setPublic {b : Buf} {rs : List Reg} (h : Inv b rs) : Inv b.setPublic rs := by
  unfold Buf.setPublic
  split
  · exact h
  · rename_i start hs
    obtain ⟨h1, h2⟩ := h.zone start hs
    refine ⟨?_, ?_, ?_⟩
    · intro r hr
      refine Agrees.append_right ((h.holds r hr).set_out (h2 r hr) _) ?_ _
      have := h.bound r hr
      simp only [List.length_set]; omega
    · intro r hr
      have := h.bound r hr
      simp only [List.length_append, List.length_set]; omega
    · intro z hz
      simp at hz

theorem setPublic_zone (b : Buf) : b.setPublic.zone = none := by
  unfold Buf.setPublic
  split
  · assumption
  · rfl

theorem setPrivate_length_of_none (b : Buf) (h : b.zone = none) : b.setPrivate.nodes.length = b.nodes.length + 1 := by
  unfold Buf.setPrivate
  rw [h]; simp

/-- whatever the buffer holds elsewhere, a declaration is read back from its root as long as its regions are intact -/
def Cert (rs : List Reg) (root : Nat) (d : Decl) : Prop :=
  ∀ A, Holds A rs → ∀ fuel, 2 * d.size + 2 ≤ fuel → readDecl fuel A root = some d

theorem Holds.mono {A : List FN} {rs rs' : List Reg} (h : Holds A (rs ++ rs')) : Holds A rs :=
  fun r hr => h r (List.mem_append_left _ hr)

theorem Holds.last {A : List FN} {rs : List Reg} {r : Reg} (h : Holds A (rs ++ [r])) : Agrees A r.base r.ns :=
  h r (by simp)

theorem Cert.mono {rs rs' : List Reg} {root : Nat} {d : Decl} (h : Cert rs root d) : Cert (rs ++ rs') root d :=
  fun A hA fuel hf => h A hA.mono fuel hf

theorem cert_fn (rs : List Reg) (fl : Flags) (name : String) (ps : List (String × Ty)) (ret : Ty) (ss : Stmts) (rv : Option Expr)
    (base sbase : Nat)
    (hh : Agrees A base (encFnHead base fl name ps ret (fnRef .Impl (sbase + (encBody sbase ss rv).length - 1))))
    (hb : Agrees A sbase (encBody sbase ss rv)) (fuel : Nat) (hf : 2 * (Decl.fn fl name ps ret (some (ss, rv))).size + 2 ≤ fuel) :
    readDecl fuel A
      (base + (encFnHead base fl name ps ret (fn .NoMoreItems)).length - 1) = some (.fn fl name ps ret (some (ss, rv))) := by
  simp only [Decl.size, bodySize] at hf
  have rb := read_encBody ss rv A sbase fuel (by omega) hb
  rw [encFnHead_length base fl name ps ret (fn .NoMoreItems) (fnRef .Impl (sbase + (encBody sbase ss rv).length - 1))]
  exact read_encFnHead_some fl name ps ret A base _ _ (ss, rv) (by omega) hh rb

theorem encDecl_ok (b : Buf) (d : Decl) (rs : List Reg) (h : Inv b rs) :
    ∃ rs', Inv (encDecl b d).1 (rs ++ rs') ∧ Cert (rs ++ rs') (encDecl b d).2 d := by
  have h1 : Inv (if (declFlags d).pub then b.setPublic else b.setPrivate) rs := by
    split
    · exact h.setPublic
    · exact h.setPrivate
  generalize hb1 : (if (declFlags d).pub then b.setPublic else b.setPrivate) = b1 at h1
  cases d with
  | imp raw =>
    refine ⟨[⟨b1.nodes.length, encImport raw⟩], ?_, ?_⟩
    · simp only [encDecl, hb1]; exact h1.push _
    · intro A hA fuel hf
      simp only [encDecl, hb1]
      exact read_encImport raw A _ _ hA.last
  | const fl name ty e =>
    refine ⟨[⟨b1.nodes.length, encConst b1.nodes.length fl name ty e⟩], ?_, ?_⟩
    · simp only [encDecl, hb1]; exact h1.push _
    · intro A hA fuel hf
      simp only [encDecl, hb1]
      exact read_encConst fl name ty e A _ _ (by simp only [Decl.size] at hf; omega) hA.last
  | struct fl name ws ms =>
    refine ⟨[⟨b1.nodes.length, encStruct b1.nodes.length fl name ws ms⟩], ?_, ?_⟩
    · simp only [encDecl, hb1]; exact h1.push _
    · intro A hA fuel hf
      simp only [encDecl, hb1]
      exact read_encStruct fl name ws ms A _ _ (by simp only [Decl.size] at hf; omega) hA.last
  | fn fl name ps ret body =>
    cases body with
    | none =>
      refine ⟨[⟨b1.nodes.length, encFnHead b1.nodes.length fl name ps ret (fn .NoMoreItems)⟩], ?_, ?_⟩
      · simp only [encDecl, hb1]; exact h1.push _
      · intro A hA fuel hf
        simp only [encDecl, hb1]
        exact read_encFnHead_none fl name ps ret A _ _ (by simp only [Decl.size, bodySize] at hf; omega) hA.last
    | some body =>
      obtain ⟨ss, rv⟩ := body
      cases hp : fl.pub with
      | false =>
        simp only [encDecl, hb1, hp, Bool.false_eq_true, if_false]
        generalize hH : encFnHead b1.nodes.length fl name ps ret (fnRef Tag.Impl
          (b1.nodes.length + (encFnHead b1.nodes.length fl name ps ret (fn Tag.NoMoreItems)).length +
            (encBody (b1.nodes.length + (encFnHead b1.nodes.length fl name ps ret (fn Tag.NoMoreItems)).length) ss rv).length - 1)) = H
        have hlen : (b1.push H).nodes.length = b1.nodes.length + (encFnHead b1.nodes.length fl name ps ret (fn Tag.NoMoreItems)).length := by
          rw [← hH]; simp only [Buf.push, List.length_append]
          rw [encFnHead_length b1.nodes.length fl name ps ret _ (fn Tag.NoMoreItems)]
        refine ⟨[⟨b1.nodes.length, H⟩, ⟨(b1.push H).nodes.length,
          encBody (b1.nodes.length + (encFnHead b1.nodes.length fl name ps ret (fn Tag.NoMoreItems)).length) ss rv⟩], ?_, ?_⟩
        · have := (h1.push H).push (encBody (b1.nodes.length + (encFnHead b1.nodes.length fl name ps ret (fn Tag.NoMoreItems)).length) ss rv)
          simpa only [List.append_assoc, List.cons_append, List.nil_append] using this
        · intro A hA fuel hf
          have hh := hA ⟨b1.nodes.length, H⟩ (by simp)
          have hb := hA ⟨(b1.push H).nodes.length,
            encBody (b1.nodes.length + (encFnHead b1.nodes.length fl name ps ret (fn Tag.NoMoreItems)).length) ss rv⟩ (by simp)
          simp only at hb
          rw [hlen] at hb
          rw [← hH] at hh
          exact cert_fn rs fl name ps ret ss rv _ _ hh hb fuel hf
      | true =>
        simp only [encDecl, hb1, hp, if_true]
        have hz1 : b1.zone = none := by
          have : b.setPublic = b1 := by simpa [declFlags, hp] using hb1
          rw [← this]; exact setPublic_zone b
        generalize hH : encFnHead b1.nodes.length fl name ps ret (fnRef Tag.Impl
          (b1.nodes.length + (encFnHead b1.nodes.length fl name ps ret (fn Tag.NoMoreItems)).length + 1 +
            (encBody (b1.nodes.length + (encFnHead b1.nodes.length fl name ps ret (fn Tag.NoMoreItems)).length + 1) ss rv).length - 1)) = H
        have hlen : (b1.push H).setPrivate.nodes.length
            = b1.nodes.length + (encFnHead b1.nodes.length fl name ps ret (fn Tag.NoMoreItems)).length + 1 := by
          rw [setPrivate_length_of_none _ (by simpa [Buf.push] using hz1)]
          rw [← hH]; simp only [Buf.push, List.length_append]
          rw [encFnHead_length b1.nodes.length fl name ps ret _ (fn Tag.NoMoreItems)]
        refine ⟨[⟨b1.nodes.length, H⟩, ⟨(b1.push H).setPrivate.nodes.length,
          encBody (b1.nodes.length + (encFnHead b1.nodes.length fl name ps ret (fn Tag.NoMoreItems)).length + 1) ss rv⟩], ?_, ?_⟩
        · have := (((h1.push H).setPrivate).push
            (encBody (b1.nodes.length + (encFnHead b1.nodes.length fl name ps ret (fn Tag.NoMoreItems)).length + 1) ss rv)).setPublic
          simpa only [List.append_assoc, List.cons_append, List.nil_append] using this
        · intro A hA fuel hf
          have hh := hA ⟨b1.nodes.length, H⟩ (by simp)
          have hb := hA ⟨(b1.push H).setPrivate.nodes.length,
            encBody (b1.nodes.length + (encFnHead b1.nodes.length fl name ps ret (fn Tag.NoMoreItems)).length + 1) ss rv⟩ (by simp)
          simp only at hb
          rw [hlen] at hb
          rw [← hH] at hh
          exact cert_fn rs fl name ps ret ss rv _ _ hh hb fuel hf

theorem encDecls_ok : (ds : List Decl) → ∀ (b : Buf) (rs : List Reg), Inv b rs →
    ∃ rs', Inv (encDecls b ds).1 (rs ++ rs') ∧ (encDecls b ds).2.length = ds.length ∧
      ∀ p ∈ (encDecls b ds).2.zip ds, Cert (rs ++ rs') p.1 p.2
  | [], b, rs, h => ⟨[], by simpa [encDecls] using h, rfl, by simp [encDecls]⟩
  | d :: ds, b, rs, h => by
    obtain ⟨rs1, hi1, hc1⟩ := encDecl_ok b d rs h
    obtain ⟨rs2, hi2, hl2, hc2⟩ := encDecls_ok ds (encDecl b d).1 (rs ++ rs1) hi1
    refine ⟨rs1 ++ rs2, ?_, ?_, ?_⟩
    · simpa only [encDecls, List.append_assoc] using hi2
    · simp only [encDecls, List.length_cons, hl2]
    · intro p hp
      simp only [encDecls, List.zip_cons_cons, List.mem_cons] at hp
      rcases hp with hp | hp
      · subst hp
        have := hc1.mono (rs' := rs2)
        simpa only [List.append_assoc] using this
      · have := hc2 p hp
        simpa only [List.append_assoc] using this

theorem inv_init : Inv { nodes := padding, zone := none } [] :=
  ⟨fun _ h => by simp at h, fun _ h => by simp at h, fun _ h => by simp at h⟩

/-- **the consumer reads back what the producer pushed**: for every module, reading the final node buffer at the
    entries of the declaration list gives exactly the module's declarations, in order -/
theorem read_encModule (ds : List Decl) :
    (encModuleR ds).2.length = ds.length ∧
    ∀ p ∈ (encModuleR ds).2.zip ds, ∀ fuel, 2 * p.2.size + 2 ≤ fuel → readDecl fuel (encModuleR ds).1 p.1 = some p.2 := by
  obtain ⟨rs, hi, hl, hc⟩ := encDecls_ok ds _ [] inv_init
  refine ⟨hl, ?_⟩
  intro p hp fuel hf
  exact hc p hp _ hi.holds fuel hf

end Layout
