/-
  The flat node layout of the second-generation parse tree (src/delta/parser/parse_node.rs, the
  `push_*` helpers of parse_tree.rs): `enc*` lays a syntax tree out exactly as the parser pushes it
  (node variants, and the absolute node ids stored in `Item`, `List`, `ListItem`, `ThenElse`, `If`,
  `Block`, `FunctionImpl` and the private-zone markers), given the number of nodes already in the
  buffer.  checks/c16.py compares the result with the real node array on every generated module.
  `Flat/Reader.lean` models the consumer (`print_xml`) and proves that it reads the tree back.
-/
import PenneModel.Syn.Ast

namespace Layout
open Flat (Tag)
open Syn

structure FN where
  tag : Tag
  /-- the node id stored in the node, if its variant has one -/
  ref : Option Nat := none
  /-- identifier / spelling / operator name carried by the node (through a token id in the real tree) -/
  text : String := ""
  val : Nat := 0
  /-- the pieces of a composite string literal (in the real tree: the source span from the node's token to `EndOfSpan`) -/
  texts : List String := []
  /-- the flag set of a `DeclarationFlags` node -/
  flags : Flags := {}
  deriving Repr, DecidableEq, Inhabited

def exprsLen : Syn.Exprs → Nat
  | .nil => 0
  | .cons _ es => exprsLen es + 1

def fn (t : Tag) : FN := { tag := t }
def fnRef (t : Tag) (r : Nat) : FN := { tag := t, ref := some r }
def fnText (t : Tag) (s : String) : FN := { tag := t, text := s }

def isSingleToken : Ty → Bool
  | .simple _ => true
  | .named _ => true
  | _ => false

def encInner : Ty → List FN
  | .simple kw => [fnText .SimpleValueType kw]
  | .named id => [fnText .UnresolvedStructOrWordVT id]
  | .ptr t => encInner t ++ [fn .PointerVT]
  | .view t => encInner t ++ [fn .ViewVT]
  | .arraylike t => encInner t ++ [fn .ArraylikeVT]
  | .slice t => encInner t ++ [fn .SliceVT]
  | .endless t => encInner t ++ [fn .EndlessArrayVT]
  | .array n t => encInner t ++ [{ tag := .ArrayVT, val := n }]
  | .arrayNamed id t => encInner t ++ [fnText .ArrayWithNamedLengthVT id]

/-- `parse_type`: a type spanning several tokens is wrapped -/
def encTy (t : Ty) : List FN :=
  if isSingleToken t then encInner t else encInner t ++ [fn .EndOfSpan, fn .CompositeValueType]

def binCode : BinOp → Nat
  | .Add => 0 | .Subtract => 1 | .Multiply => 2 | .Divide => 3 | .Modulo => 4 | .BitwiseAnd => 5 | .BitwiseOr => 6
  | .BitwiseXor => 7 | .ShiftLeft => 8 | .ShiftRight => 9 | .AdvancePointer => 10
def binOfCode : Nat → Option BinOp
  | 0 => some .Add | 1 => some .Subtract | 2 => some .Multiply | 3 => some .Divide | 4 => some .Modulo
  | 5 => some .BitwiseAnd | 6 => some .BitwiseOr | 7 => some .BitwiseXor | 8 => some .ShiftLeft | 9 => some .ShiftRight
  | 10 => some .AdvancePointer | _ => none
def unCode : UnOp → Nat
  | .Negative => 0 | .BitwiseComplement => 1
def unOfCode : Nat → Option UnOp
  | 0 => some .Negative | 1 => some .BitwiseComplement | _ => none
def cmpCode : CmpOp → Nat
  | .Equals => 0 | .DoesNotEqual => 1 | .IsGreater => 2 | .IsGE => 3 | .IsLess => 4 | .IsLE => 5
def cmpOfCode : Nat → Option CmpOp
  | 0 => some .Equals | 1 => some .DoesNotEqual | 2 => some .IsGreater | 3 => some .IsGE | 4 => some .IsLess
  | 5 => some .IsLE | _ => none

/-- the nodes of a reference: its steps as a list, then `List`, `Identifier`, `DerefAddressDepth`, `Deref` -/
def derefTail (first : Nat) (name : String) (depth : Nat) : List FN :=
  [fnRef .List first, fnText .Identifier name, { tag := .DerefAddressDepth, val := depth }, fn .Deref]

mutual
/-- nodes pushed for an expression when `base` nodes are already in the buffer; its root is the last one -/
def encExpr (base : Nat) : Expr → List FN
  | .int .naked v => [{ tag := .UntypedIntegerLiteral, val := v, text := "naked" }]
  | .int .bit v => [{ tag := .UntypedIntegerLiteral, val := v, text := "bit" }]
  | .int (.suffixed vt) v => [fnText .SimpleValueType vt, { tag := .TypedIntegerLiteral, val := v }]
  | .int .char v => [{ tag := .CharLiteral, val := v }]
  | .bool v => [{ tag := .BooleanLiteral, val := v }]
  | .str [p] => [fnText .SimpleStringLiteral p]
  | .str ps => [fn .EndOfSpan, { tag := .CompositeStringLiteral, texts := ps }]
  | .array es =>
    let l := encList base es
    l.1 ++ [fnRef .List l.2, { tag := .ArrayLiteral, val := exprsLen es }]
  | .structural name fs =>
    let l := encFields base fs
    l.1 ++ [fnRef .List l.2, fnText .Structural name]
  | .paren e => encExpr base e ++ [fn .Parenthesized]
  | .deref d name st =>
    let l := encSteps base st
    l.1 ++ derefTail l.2 name d
  | .call name b args =>
    let l := encList base args
    l.1 ++ [fnRef .List l.2, fnText .Identifier name, { tag := .FunctionCall, val := if b then 1 else 0 }]
  | .bin op l r =>
    let nl := encExpr base l
    let nr := encExpr (base + nl.length) r
    nl ++ nr ++ [fnRef .Item (base + nl.length - 1), { tag := .BinaryOp, val := binCode op }, fn .Binary]
  | .un op e => encExpr base e ++ [{ tag := .UnaryOp, val := unCode op }, fn .Unary]
  | .bitcast e => encExpr base e ++ [fn .BitCast]
  | .typecast e t =>
    let ne := encExpr base e
    ne ++ encTy t ++ [fnRef .Item (base + ne.length - 1), fn .TypeCast]
  | .lengthOf d name st =>
    let l := encSteps base st
    l.1 ++ derefTail l.2 name d ++ [fn .LengthOf]
  | .sizeOf t => encTy t ++ [fn .SizeOf]
/-- a list of expressions (arguments, array elements): each item is followed by a `ListItem` whose `next` is the
    following `ListItem` (or the closing `NoMoreItems`); returns the nodes and the id of the first link -/
def encList (base : Nat) : Exprs → List FN × Nat
  | .nil => ([fn .NoMoreItems], base)
  | .cons e es =>
    let ne := encExpr base e
    let link := base + ne.length
    let rest := encList (link + 1) es
    (ne ++ fnRef .ListItem rest.2 :: rest.1, link)
def encSteps (base : Nat) : Steps → List FN × Nat
  | .nil => ([fn .NoMoreItems], base)
  | .member id rest =>
    let link := base + 1
    let r := encSteps (link + 1) rest
    (fnText .DerefStepMember id :: fnRef .ListItem r.2 :: r.1, link)
  | .elem e rest =>
    let ne := encExpr base e
    let link := base + ne.length + 1
    let r := encSteps (link + 1) rest
    (ne ++ fn .DerefStepElement :: fnRef .ListItem r.2 :: r.1, link)
def encFields (base : Nat) : Fields → List FN × Nat
  | .nil => ([fn .NoMoreItems], base)
  | .cons name e rest =>
    let ne := encExpr base e
    let link := base + ne.length + 1
    let r := encFields (link + 1) rest
    (ne ++ fnText .IdentifierAndExpression name :: fnRef .ListItem r.2 :: r.1, link)
end

def encCmp (base : Nat) (op : CmpOp) (l r : Expr) : List FN :=
  let nl := encExpr base l
  let nr := encExpr (base + nl.length) r
  nl ++ nr ++ [fnRef .Item (base + nl.length - 1), { tag := .ComparisonOp, val := cmpCode op }, fn .Comparison]

mutual
def encStmt (base : Nat) : Stmt → List FN
  | .var name ty val =>
    let nt := match ty with | some t => encTy t | none => []
    let nv := match val with | some e => encExpr (base + nt.length) e | none => []
    nt ++ nv ++
      [match val with | some _ => fnRef .Item (base + nt.length + nv.length - 1) | none => fn .NoMoreItems,
       match ty with | some _ => fnRef .Item (base + nt.length - 1) | none => fn .NoMoreItems,
       fnText .VariableDeclaration name]
  | .assign d name st e =>
    let l := encSteps base st
    let nref := l.1 ++ derefTail l.2 name d
    let ne := encExpr (base + nref.length) e
    nref ++ ne ++ [fnRef .Item (base + nref.length - 1), fn .Assignment]
  | .mcall name b args =>
    let l := encList base args
    l.1 ++ [fnRef .List l.2, fnText .Identifier name, { tag := .MethodCall, val := if b then 1 else 0 }]
  | .loop => [fn .Loop]
  | .goto l => [fnText .Identifier l, fn .Goto]
  | .label l => [fnText .Identifier l, fn .Label]
  | .ifThen op l r th =>
    let c := encCmp base op l r
    let nth := encStmt (base + c.length) th
    c ++ nth ++ [fn .Then, fnRef .If (base + c.length - 1)]
  | .ifElse op l r th el =>
    let c := encCmp base op l r
    let nth := encStmt (base + c.length) th
    let nel := encStmt (base + c.length + nth.length) el
    c ++ nth ++ nel ++ [fnRef .ThenElse (base + c.length + nth.length - 1), fnRef .If (base + c.length - 1)]
  | .block ss =>
    let l := encStmts base ss
    l.1 ++ [fnRef .Block l.2]
def encStmts (base : Nat) : Stmts → List FN × Nat
  | .nil => ([fn .NoMoreItems], base)
  | .cons s ss =>
    let ns := encStmt base s
    let link := base + ns.length
    let rest := encStmts (link + 1) ss
    (ns ++ fnRef .ListItem rest.2 :: rest.1, link)
end

/-- parameters and members: `type, IdentifierAndType, ListItem` each -/
def encTyped (base : Nat) : List (String × Ty) → List FN × Nat
  | [] => ([fn .NoMoreItems], base)
  | (n, t) :: rest =>
    let nt := encTy t
    let link := base + nt.length + 1
    let r := encTyped (link + 1) rest
    (nt ++ fnText .IdentifierAndType n :: fnRef .ListItem r.2 :: r.1, link)

def fnFlags (fl : Flags) : FN := { tag := .DeclarationFlags, flags := fl }

/-- `size_in_bytes_if_word` -/
def wsCode : Option Nat → Nat
  | none => 0
  | some k => k + 1
def wsOfCode : Nat → Option Nat
  | 0 => none
  | k + 1 => some k

structure Buf where
  nodes : List FN
  /-- the index of the open `PrivateZone` marker, if a private zone is active -/
  zone : Option Nat

def Buf.push (b : Buf) (ns : List FN) : Buf := { b with nodes := b.nodes ++ ns }

/-- `set_private` -/
def Buf.setPrivate (b : Buf) : Buf :=
  match b.zone with
  | some _ => b
  | none => { nodes := b.nodes ++ [fn .PrivateZone], zone := some b.nodes.length }

/-- `set_public`: close the zone and patch its start marker with the id of the end marker -/
def Buf.setPublic (b : Buf) : Buf :=
  match b.zone with
  | none => b
  | some start =>
    { nodes := (b.nodes.set start (fnRef .PrivateZone b.nodes.length)) ++ [fnRef .EndPrivateZone start], zone := none }

def declFlags : Decl → Flags
  | .imp _ => {}
  | .const fl _ _ _ => fl
  | .fn fl _ _ _ _ => fl
  | .struct fl _ _ _ => fl

def encImport (raw : String) : List FN :=
  [fnText .SimpleStringLiteral raw, fnFlags {}, fn .ImportDeclaration]

def encConst (base : Nat) (fl : Flags) (name : String) (ty : Ty) (e : Expr) : List FN :=
  let nt := encTy ty
  let ne := encExpr (base + nt.length) e
  nt ++ ne ++ [fnRef .Item (base + nt.length - 1), fnText .Identifier name, fnFlags fl, fn .ConstantDeclaration]

def encStruct (base : Nat) (fl : Flags) (name : String) (ws : Option Nat) (members : List (String × Ty)) : List FN :=
  let l := encTyped base members
  l.1 ++ [fnRef .List l.2, { tag := .StructuralType, val := wsCode ws }, fnText .Identifier name, fnFlags fl,
    fn .StructureDeclaration]

/-- the head of a function declaration; `impl` is `NoMoreItems` for a declaration without body, or `FunctionImpl`
    with the id of the `FunctionBody` node (`finish_impl` patches it in once the body has been pushed) -/
def encFnHead (base : Nat) (fl : Flags) (name : String) (params : List (String × Ty)) (ret : Ty) (impl : FN) : List FN :=
  let l := encTyped base params
  let nr := encTy ret
  l.1 ++ nr ++ [impl, fnRef .Item (base + l.1.length + nr.length - 1), fnRef .List l.2, fnText .Identifier name,
    fnFlags fl, fn .FunctionDeclaration]

def encBody (sbase : Nat) (ss : Stmts) (rv : Option Expr) : List FN :=
  let ls := encStmts sbase ss
  let nv := match rv with | some e => encExpr (sbase + ls.1.length) e | none => []
  ls.1 ++ nv ++
    [match rv with | some _ => fnRef .Item (sbase + ls.1.length + nv.length - 1) | none => fn .NoMoreItems,
     fnRef .List ls.2, fn .FunctionBody]

/-- push a declaration; returns the buffer and the id of the declaration's root node -/
def encDecl (b : Buf) (d : Decl) : Buf × Nat :=
  let b := if (declFlags d).pub then b.setPublic else b.setPrivate
  let base := b.nodes.length
  match d with
  | .imp raw => (b.push (encImport raw), base + 2)
  | .const fl name ty e =>
    let ns := encConst base fl name ty e
    (b.push ns, base + ns.length - 1)
  | .struct fl name ws members =>
    let ns := encStruct base fl name ws members
    (b.push ns, base + ns.length - 1)
  | .fn fl name params ret none =>
    let ns := encFnHead base fl name params ret (fn .NoMoreItems)
    (b.push ns, base + ns.length - 1)
  | .fn fl name params ret (some (ss, rv)) =>
    let headLen := (encFnHead base fl name params ret (fn .NoMoreItems)).length
    -- the body of a public function is private: a zone marker sits between the head and the body
    let sbase := if fl.pub then base + headLen + 1 else base + headLen
    let body := encBody sbase ss rv
    let head := encFnHead base fl name params ret (fnRef .Impl (sbase + body.length - 1))
    let b := b.push head
    let b := if fl.pub then b.setPrivate else b
    let b := b.push body
    let b := if fl.pub then b.setPublic else b
    (b, base + headLen - 1)

def padding : List FN := [fn .NoMoreItems, fn .NoMoreItems, fn .NoMoreItems, fn .NoMoreItems, fn .NoMoreItems]

def encDecls (b : Buf) : List Decl → Buf × List Nat
  | [] => (b, [])
  | d :: ds =>
    let r := encDecl b d
    let rest := encDecls r.1 ds
    (rest.1, r.2 :: rest.2)

/-- the node array of a module and the ids of its declarations (`ParseTree::declarations`) -/
def encModuleR (ds : List Decl) : List FN × List Nat :=
  let r := encDecls { nodes := padding, zone := none } ds
  (r.1.nodes, r.2)

def encModule (ds : List Decl) : List FN := (encModuleR ds).1

def showFN (n : FN) : String :=
  match n.ref with
  | some r => s!"{n.tag.name}@{r}"
  | none => n.tag.name

end Layout
