/-
  parse ∘ print = norm, for function bodies, declarations and whole modules.
-/
import PenneModel.Syn.StmtRT

namespace Syn
open Flat (Kind)

def stmtHead : Stmt → Kind
  | .var _ _ _ => .Var
  | .assign d _ _ _ => if d = 0 then .Identifier else .Ampersand
  | .mcall _ b _ => if b then .Builtin else .Identifier
  | .loop => .Loop
  | .goto _ => .Goto
  | .label _ => .Identifier
  | .ifThen _ _ _ _ => .If
  | .ifElse _ _ _ _ _ => .If
  | .block _ => .BraceLeft

theorem kindOf_printStmt (s : Stmt) (rest : List Tok) : kindOf (printStmt s ++ rest) = stmtHead s := by
  cases s with
  | assign d name st e => cases d <;> simp [printStmt, amps, stmtHead, tk, tId]
  | mcall name b args => cases b <;> simp [printStmt, stmtHead]
  | _ => simp [printStmt, stmtHead, tk, tId]

theorem stmtHead_ne (s : Stmt) : stmtHead s ≠ .BraceRight ∧ stmtHead s ≠ .Return ∧ stmtHead s ≠ .Else := by
  cases s with
  | assign d _ _ _ => cases d <;> simp [stmtHead]
  | mcall _ b _ => cases b <;> simp [stmtHead]
  | _ => simp [stmtHead]

/-- the tokens of a function body after its opening brace -/
def printBodyRest (ss : Stmts) (rv : Option Expr) : List Tok :=
  printStmts ss ++ (match rv with
    | none => [tk .BraceRight]
    | some e => tk .Return :: tk .Colon :: printExpr e ++ [tk .BraceRight])

def bodyRest (rv : Option Expr) (rest : List Tok) : List Tok :=
  match rv with
  | none => rest
  | some _ => tk .BraceRight :: rest

theorem body_rt : ∀ (ss : Stmts) (rv : Option Expr), ss.ok = true → optOk rv = true →
    ∀ f rest, 16 * (ss.size + optSize rv) + 16 ≤ f →
      parseBody f (printBodyRest ss rv ++ rest) = some ((ss.norm, optNorm rv), bodyRest rv rest)
  | .nil, rv, _, hrv => by
    intro f rest hf
    obtain ⟨f', rfl⟩ : ∃ f', f = f' + 1 := ⟨f - 1, by omega⟩
    cases rv with
    | none =>
      simp only [printBodyRest, printStmts, List.nil_append, tk, List.cons_append]
      rw [parseBody]
      simp [Stmts.norm, optNorm, bodyRest]
    | some e =>
      simp only [optOk] at hrv
      simp only [optSize, Stmts.size] at hf
      have he := parse_print_expr e hrv (tk .BraceRight :: rest) (by simp [stopA, stopM, stopS, stopP, glue, tk]) f'
        (by simp only [Expr.need]; omega)
      simp only [tk] at he
      simp only [printBodyRest, printStmts, List.nil_append, tk, List.cons_append, List.append_assoc]
      rw [parseBody]
      simp [eat, he, Stmts.norm, optNorm, bodyRest, tk]
  | .cons s ss, rv, hok, hrv => by
    intro f rest hf
    simp only [Stmts.ok, Bool.and_eq_true] at hok
    simp only [Stmts.size] at hf
    obtain ⟨f', rfl⟩ : ∃ f', f = f' + 1 := ⟨f - 1, by omega⟩
    have hps := stmt_size_pos s
    have hpss := stmts_size_pos ss
    have hne := stmtHead_ne s
    have hnext : kindOf (printBodyRest ss rv ++ rest) ≠ .Else := by
      cases ss with
      | nil => cases rv <;> simp [printBodyRest, printStmts, tk]
      | cons s2 ss2 =>
        have := (stmtHead_ne s2).2.2
        simp only [printBodyRest, printStmts, List.append_assoc]
        rw [kindOf_printStmt]
        exact this
    have hs := stmt_rt s hok.1 f' (printBodyRest ss rv ++ rest) (by simp only [Stmt.need]; omega) (fun _ => hnext)
    have hrec := body_rt ss rv hok.2 hrv f' rest (by omega)
    have hshape : printBodyRest (.cons s ss) rv ++ rest = printStmt s ++ (printBodyRest ss rv ++ rest) := by
      simp [printBodyRest, printStmts, List.append_assoc]
    rw [hshape, parseBody]
    rw [kindOf_printStmt]
    split
    · rename_i h1; exact absurd h1 hne.1
    · rename_i h1; exact absurd h1 hne.2.1
    · simp [hs, hrec, Stmts.norm]

/-! ### parameters and members -/

theorem typedSize_pos (ps : List (String × Ty)) : 1 ≤ typedSize ps := by
  cases ps with
  | nil => simp [typedSize]
  | cons p ps => obtain ⟨n, t⟩ := p; simp [typedSize]

theorem params_rt : ∀ (ps : List (String × Ty)) (f : Nat) (rest : List Tok), 2 * typedSize ps ≤ f →
    parseTyped f .ParenRight (printTyped ps ++ tk .ParenRight :: rest) = some (ps, rest)
  | [], f, rest, hf => by
    simp only [typedSize] at hf
    obtain ⟨f', rfl⟩ : ∃ f', f = f' + 1 := ⟨f - 1, by omega⟩
    simp only [printTyped, List.nil_append, tk]
    rw [parseTyped]
    simp
  | [(n, t)], f, rest, hf => by
    simp only [typedSize] at hf
    obtain ⟨f', rfl⟩ : ∃ f', f = f' + 1 := ⟨f - 1, by omega⟩
    have ht := parse_print_ty t ({ kind := Kind.ParenRight } :: rest) f' (by omega)
    simp only [printTyped, tk, tId, List.cons_append, List.append_assoc]
    rw [parseTyped]
    simp [eat, parseType, ht]
  | (n, t) :: p2 :: ps, f, rest, hf => by
    simp only [typedSize] at hf
    obtain ⟨f', rfl⟩ : ∃ f', f = f' + 1 := ⟨f - 1, by omega⟩
    have hrec := params_rt (p2 :: ps) f' rest (by simp only [typedSize]; omega)
    have ht := parse_print_ty t ({ kind := Kind.Comma } :: (printTyped (p2 :: ps) ++ { kind := Kind.ParenRight } :: rest)) f'
      (by have := typedSize_pos ps; omega)
    simp only [tk] at hrec
    simp only [printTyped, tk, tId, List.cons_append, List.append_assoc]
    rw [parseTyped]
    simp [eat, parseType, ht, hrec]

theorem members_rt : ∀ (ms : List (String × Ty)) (f : Nat) (rest : List Tok), 2 * typedSize ms ≤ f →
    parseTyped f .BraceRight (printMembers ms ++ tk .BraceRight :: rest) = some (ms, rest)
  | [], f, rest, hf => by
    simp only [typedSize] at hf
    obtain ⟨f', rfl⟩ : ∃ f', f = f' + 1 := ⟨f - 1, by omega⟩
    simp only [printMembers, List.nil_append, tk]
    rw [parseTyped]
    simp
  | (n, t) :: ms, f, rest, hf => by
    simp only [typedSize] at hf
    obtain ⟨f', rfl⟩ : ∃ f', f = f' + 1 := ⟨f - 1, by omega⟩
    have hrec := members_rt ms f' rest (by have := typedSize_pos ms; omega)
    have ht := parse_print_ty t ({ kind := Kind.Comma } :: (printMembers ms ++ { kind := Kind.BraceRight } :: rest)) f'
      (by have := typedSize_pos ms; omega)
    simp only [tk] at hrec
    simp only [printMembers, tk, tId, List.cons_append, List.append_assoc]
    rw [parseTyped]
    simp [eat, parseType, ht, hrec]

/-! ### declarations -/

theorem decl_imp (raw : String) (f : Nat) (rest : List Tok) :
    parseDecl f (printDecl (.imp raw) ++ rest) = some (.imp raw, rest) := by
  simp [printDecl, parseDecl, tk, eat, wordSizeOf]

theorem decl_const (fl : Flags) (name : String) (ty : Ty) (e : Expr) (hfl : fl.isOpaque = false)
    (he : e.lvl.isSome = true) (f : Nat) (rest : List Tok) (hf : 16 * (ty.depth + e.size + 1) + 16 ≤ f) :
    parseDecl f (printDecl (.const fl name ty e) ++ rest) = some (.const fl name ty e.norm, rest) := by
  obtain ⟨p, x, o⟩ := fl
  simp only at hfl
  subst hfl
  have hexpr := parse_print_expr e he (tk .Semicolon :: rest) (by simp [stopA, stopM, stopS, stopP, glue, tk]) f
    (by simp only [Expr.need]; omega)
  simp only [tk] at hexpr
  have hty := parse_print_ty ty ({ kind := Kind.Assignment } :: (printExpr e ++ { kind := Kind.Semicolon } :: rest)) f
    (by omega)
  cases p <;> cases x <;>
    simp [printDecl, printFlags, parseDecl, tk, tId, eat, parseType, hty, hexpr, wordSizeOf]

theorem decl_struct (fl : Flags) (name : String) (ws : Option Nat) (ms : List (String × Ty))
    (hok : (Decl.struct fl name ws ms).ok = true) (f : Nat) (rest : List Tok) (hf : 2 * typedSize ms + 2 ≤ f) :
    parseDecl f (printDecl (.struct fl name ws ms) ++ rest) = some (.struct fl name ws ms, rest) := by
  obtain ⟨p, x, o⟩ := fl
  cases o with
  | true =>
    simp only [Decl.ok, if_true, Bool.and_eq_true, Option.isNone_iff_eq_none, List.isEmpty_iff] at hok
    obtain ⟨rfl, rfl⟩ := hok
    cases p <;> cases x <;> simp [printDecl, printFlags, parseDecl, tk, tId, eat, wordSizeOf]
  | false =>
    have hm := members_rt ms f rest (by omega)
    simp only [tk] at hm
    cases ws with
    | none =>
      cases p <;> cases x <;> simp [printDecl, printFlags, parseDecl, tk, tId, eat, hm, wordSizeOf]
    | some n =>
      simp only [Decl.ok, Bool.false_eq_true, if_false, Bool.or_eq_true, beq_iff_eq] at hok
      rcases hok with (((rfl | rfl) | rfl) | rfl) | rfl <;> cases p <;> cases x <;>
        simp [printDecl, printFlags, parseDecl, tk, tId, eat, hm, wordSizeOf, wordKind]

/-- the tokens of a function declaration after its return type -/
def printFnBody : Option (Stmts × Option Expr) → List Tok
  | none => [tk .Semicolon]
  | some (ss, rv) => tk .BraceLeft :: printBodyRest ss rv

theorem printDecl_fn (fl : Flags) (name : String) (params : List (String × Ty)) (ret : Ty)
    (body : Option (Stmts × Option Expr)) :
    printDecl (.fn fl name params ret body) =
      printFlags fl ++ tk .Fn :: tId name :: tk .ParenLeft :: printTyped params ++ tk .ParenRight ::
        ((if ret = .simple "void" then [] else tk .Arrow :: printTy ret) ++ printFnBody body) := by
  cases body with
  | none => simp [printDecl, printFnBody]
  | some b =>
    obtain ⟨ss, rv⟩ := b
    cases rv <;> simp [printDecl, printFnBody, printBodyRest]

def fnRest : Option (Stmts × Option Expr) → List Tok → List Tok
  | some (_, some _), rest => tk .BraceRight :: rest
  | _, rest => rest

theorem fnBody_rt (body : Option (Stmts × Option Expr)) (hok : bodyOk body = true) (f : Nat) (rest : List Tok)
    (hf : 16 * bodySize body + 16 ≤ f) :
    (if kindOf (printFnBody body ++ rest) = .Semicolon then
        some ((none : Option (Stmts × Option Expr)), (printFnBody body ++ rest).drop 1)
      else (eat .BraceLeft (printFnBody body ++ rest)).bind fun p =>
        (parseBody f p.2).bind fun q => some (some q.1, q.2)) =
      some (bodyNorm body, fnRest body rest) := by
  cases body with
  | none => simp [printFnBody, tk, bodyNorm, fnRest]
  | some b =>
    obtain ⟨ss, rv⟩ := b
    simp only [bodyOk, Bool.and_eq_true] at hok
    simp only [bodySize] at hf
    have hb := body_rt ss rv hok.1 hok.2 f rest (by omega)
    cases rv with
    | none => simp [printFnBody, tk, eat, hb, bodyNorm, bodyRest, optNorm, fnRest] at hb ⊢
    | some e =>
      simp [printFnBody, tk, eat, bodyNorm, bodyRest, optNorm, hb, fnRest]

theorem decl_fn (fl : Flags) (name : String) (params : List (String × Ty)) (ret : Ty)
    (body : Option (Stmts × Option Expr)) (hfl : fl.isOpaque = false) (hok : bodyOk body = true)
    (f : Nat) (rest : List Tok) (hf : 16 * (typedSize params + ret.depth + bodySize body + 1) + 16 ≤ f) :
    parseDecl f (printDecl (.fn fl name params ret body) ++ rest) =
      some (.fn fl name params ret (bodyNorm body), fnRest body rest) := by
  obtain ⟨p, x, o⟩ := fl
  simp only at hfl
  subst hfl
  have hpp := typedSize_pos params
  rw [printDecl_fn]
  -- the tokens after the return type, with the definitions unfolded
  obtain ⟨B, hB, hBk⟩ : ∃ B, printFnBody body ++ rest = B ∧ kindOf B ≠ .Arrow := by
    refine ⟨_, rfl, ?_⟩
    cases body with
    | none => simp [printFnBody, tk]
    | some b => obtain ⟨ss, rv⟩ := b; simp [printFnBody, tk]
  have hbody : (if kindOf B = .Semicolon then some ((none : Option (Stmts × Option Expr)), B.drop 1)
      else (eat .BraceLeft B).bind fun p => (parseBody f p.2).bind fun q => some (some q.1, q.2)) =
      some (bodyNorm body, fnRest body rest) := by
    rw [← hB]; exact fnBody_rt body hok f rest (by omega)
  by_cases hv : ret = .simple "void"
  · subst hv
    have hpar := params_rt params f B (by omega)
    simp only [tk] at hpar
    simp only [if_true, List.nil_append, List.append_assoc, List.cons_append, hB]
    cases hkb : kindOf B == .Semicolon <;>
      cases p <;> cases x <;>
      simp_all [printFlags, parseDecl, tk, tId, eat, wordSizeOf]
    all_goals
      obtain ⟨p1, hp1, hrest⟩ := Option.bind_eq_some_iff.mp hbody
      obtain ⟨q1, hq1, hfin⟩ := Option.bind_eq_some_iff.mp hrest
      simp only [Option.some.injEq, Prod.mk.injEq] at hfin
      rw [hp1]
      simp [hq1, ← hfin.1, hfin.2]
  · have hpar := params_rt params f (tk .Arrow :: (printTy ret ++ B)) (by omega)
    simp only [tk] at hpar
    have hty := parse_print_ty ret B f (by omega)
    simp only [hv, if_false, List.append_assoc, List.cons_append, hB]
    cases hkb : kindOf B == .Semicolon <;>
      cases p <;> cases x <;>
      simp_all [printFlags, parseDecl, tk, tId, eat, wordSizeOf, parseType]
    all_goals
      obtain ⟨p1, hp1, hrest⟩ := Option.bind_eq_some_iff.mp hbody
      obtain ⟨q1, hq1, hfin⟩ := Option.bind_eq_some_iff.mp hrest
      simp only [Option.some.injEq, Prod.mk.injEq] at hfin
      rw [hp1]
      simp [hq1, ← hfin.1, hfin.2]

theorem decl_rt (d : Decl) (hok : d.ok = true) (f : Nat) (rest : List Tok) (hf : d.need ≤ f) :
    parseDecl f (printDecl d ++ rest) = some (d.norm, declRest d rest) := by
  cases d with
  | imp raw => exact decl_imp raw f rest
  | const fl name ty e =>
    simp only [Decl.ok, Bool.and_eq_true, Bool.not_eq_true'] at hok
    simp only [Decl.need, Decl.size] at hf
    exact decl_const fl name ty e hok.1 hok.2 f rest (by omega)
  | struct fl name ws ms =>
    simp only [Decl.need, Decl.size] at hf
    have := typedSize_pos ms
    exact decl_struct fl name ws ms hok f rest (by omega)
  | fn fl name params ret body =>
    simp only [Decl.ok, Bool.and_eq_true, Bool.not_eq_true'] at hok
    simp only [Decl.need, Decl.size] at hf
    have h := decl_fn fl name params ret body hok.1 hok.2 f rest (by omega)
    rw [h]
    cases body with
    | none => rfl
    | some b => obtain ⟨ss, rv⟩ := b; cases rv <;> rfl

/-! ### modules -/

theorem wordKind_starts (n : Nat) : Flat.startsDeclaration (wordKind n) = true := by
  unfold wordKind
  split <;> decide

theorem printDecl_kind (d : Decl) (rest : List Tok) :
    Flat.startsDeclaration (kindOf (printDecl d ++ rest)) = true := by
  cases d with
  | imp raw => simp [printDecl, tk]; decide
  | const fl name ty e =>
    obtain ⟨p, x, o⟩ := fl
    cases p <;> cases x <;> simp [printDecl, printFlags, tk] <;> decide
  | fn fl name params ret body =>
    obtain ⟨p, x, o⟩ := fl
    rw [printDecl_fn]
    cases p <;> cases x <;> simp [printFlags, tk] <;> decide
  | struct fl name ws ms =>
    obtain ⟨p, x, o⟩ := fl
    cases p <;> cases x <;> simp [printDecl, printFlags, tk]
    · cases ws with
      | none => decide
      | some n => exact wordKind_starts n
    all_goals decide

def declsSize : List Decl → Nat
  | [] => 1
  | d :: ds => d.size + declsSize ds + 2

theorem startsDecl_printModule (ds : List Decl) :
    ∃ t ts, printModule ds = t :: ts ∧ startsDecl t = true := by
  cases ds with
  | nil => exact ⟨_, _, rfl, by simp [startsDecl, tk]⟩
  | cons d ds =>
    have hk := printDecl_kind d (printModule ds)
    have hshape : printModule (d :: ds) = printDecl d ++ printModule ds := by
      simp [printModule, List.flatMap_cons, List.append_assoc]
    rw [hshape]
    cases hp : printDecl d ++ printModule ds with
    | nil => rw [hp] at hk; simp [Flat.startsDeclaration] at hk
    | cons t ts =>
      rw [hp] at hk
      exact ⟨t, ts, rfl, by simp only [kindOf_cons] at hk; simp [startsDecl, hk]⟩

theorem dropWhile_declRest (d : Decl) (ds : List Decl) :
    (declRest d (printModule ds)).dropWhile (fun t => !startsDecl t) = printModule ds := by
  obtain ⟨t, ts, h1, h2⟩ := startsDecl_printModule ds
  have hstop : (printModule ds).dropWhile (fun t => !startsDecl t) = printModule ds := by
    rw [h1]; simp [List.dropWhile, h2]
  unfold declRest
  split
  · have hb : (!startsDecl (tk .BraceRight)) = true := by decide
    rw [List.dropWhile_cons]
    simp only [hb, if_true]
    exact hstop
  · exact hstop

/-- **modules round-trip** -/
theorem module_rt : ∀ (ds : List Decl), (∀ d ∈ ds, d.ok = true) → ∀ f, 16 * declsSize ds + 16 ≤ f →
    parseModule f (printModule ds) = some (ds.map Decl.norm)
  | [], _, f, hf => by
    obtain ⟨f', rfl⟩ : ∃ f', f = f' + 1 := ⟨f - 1, by simp only [declsSize] at hf; omega⟩
    simp [printModule, parseModule, tk]
  | d :: ds, hok, f, hf => by
    simp only [declsSize] at hf
    obtain ⟨f', rfl⟩ : ∃ f', f = f' + 1 := ⟨f - 1, by omega⟩
    have hshape : printModule (d :: ds) = printDecl d ++ printModule ds := by
      simp [printModule, List.flatMap_cons, List.append_assoc]
    have hd := decl_rt d (hok d (by simp)) f' (printModule ds) (by simp only [Decl.need]; omega)
    have hrec := module_rt ds (fun x hx => hok x (by simp [hx])) f' (by omega)
    have hk := printDecl_kind d (printModule ds)
    have hne : kindOf (printDecl d ++ printModule ds) ≠ .EndOfSource := by
      intro h; rw [h] at hk; simp [Flat.startsDeclaration] at hk
    rw [hshape, parseModule]
    simp only [hne, if_false]
    rw [hd]
    simp only [Option.bind_eq_bind, Option.bind_some, dropWhile_declRest, hrec]
    simp

end Syn
