/-
  M-Syn: the abstract syntax both parsers build (src/alpha/common.rs, the XML dump of
  src/delta/parser/parse_tree_xml.rs), tokens with their payload, and the canonical
  S-expression in which the harness, checks/xmltree.py and checks/syngen.py print trees.
  Lists inside the mutual blocks are spelled out (`Exprs`, `Steps`, `Fields`, `Stmts`) so that
  every function over the syntax is structurally recursive.
-/
import PenneModel.Flat.Dsl

namespace Syn
open Flat (Kind)

structure Tok where
  kind : Kind
  /-- identifier / builtin name, literal spelling, raw body of a string literal -/
  text : String := ""
  /-- integer payload -/
  val : Nat := 0
  /-- type keyword (of a ValueTypeKeyword or of the suffix of a SuffixedInteger) -/
  vt : String := ""
  deriving Repr, DecidableEq, Inhabited

inductive Ty
  | simple (kw : String)
  | named (id : String)
  | ptr (t : Ty)
  | view (t : Ty)
  | arraylike (t : Ty)
  | slice (t : Ty)
  | endless (t : Ty)
  | array (len : Nat) (t : Ty)
  | arrayNamed (id : String) (t : Ty)
  deriving Repr, DecidableEq, Inhabited

inductive BinOp
  | Add | Subtract | Multiply | Divide | Modulo | BitwiseAnd | BitwiseOr | BitwiseXor | ShiftLeft | ShiftRight
  | AdvancePointer
  deriving Repr, DecidableEq, Inhabited

inductive UnOp
  | Negative | BitwiseComplement
  deriving Repr, DecidableEq, Inhabited

inductive CmpOp
  | Equals | DoesNotEqual | IsGreater | IsGE | IsLess | IsLE
  deriving Repr, DecidableEq, Inhabited

/-- how an integer literal was spelled: the tree keeps the value; the kind decides whether the first
    generation folds a preceding minus into it -/
inductive IntKind
  | naked
  | bit
  | suffixed (vt : String)
  | char
  deriving Repr, DecidableEq, Inhabited

mutual
inductive Expr
  | int (kind : IntKind) (v : Nat)
  | bool (v : Nat)
  | str (parts : List String)
  | array (es : Exprs)
  | structural (name : String) (fs : Fields)
  | paren (e : Expr)
  | deref (depth : Nat) (name : String) (st : Steps)
  | call (name : String) (builtin : Bool) (args : Exprs)
  | bin (op : BinOp) (l r : Expr)
  | un (op : UnOp) (e : Expr)
  | bitcast (e : Expr)
  | typecast (e : Expr) (t : Ty)
  | lengthOf (depth : Nat) (name : String) (st : Steps)
  | sizeOf (t : Ty)
inductive Exprs
  | nil
  | cons (e : Expr) (es : Exprs)
inductive Steps
  | nil
  | member (id : String) (rest : Steps)
  | elem (e : Expr) (rest : Steps)
inductive Fields
  | nil
  | cons (name : String) (e : Expr) (rest : Fields)
end

mutual
inductive Stmt
  | var (name : String) (ty : Option Ty) (val : Option Expr)
  | assign (depth : Nat) (name : String) (st : Steps) (e : Expr)
  | mcall (name : String) (builtin : Bool) (args : Exprs)
  | loop
  | goto (label : String)
  | label (name : String)
  | ifThen (op : CmpOp) (l r : Expr) (th : Stmt)
  | ifElse (op : CmpOp) (l r : Expr) (th el : Stmt)
  | block (ss : Stmts)
inductive Stmts
  | nil
  | cons (s : Stmt) (ss : Stmts)
end

structure Flags where
  pub : Bool := false
  ext : Bool := false
  isOpaque : Bool := false
  deriving Repr, DecidableEq, Inhabited

inductive Decl
  | imp (raw : String)
  | const (flags : Flags) (name : String) (ty : Ty) (e : Expr)
  | fn (flags : Flags) (name : String) (params : List (String × Ty)) (ret : Ty) (body : Option (Stmts × Option Expr))
  | struct (flags : Flags) (name : String) (wordSize : Option Nat) (members : List (String × Ty))

/-! ### canonical S-expressions -/

def i128Max : Nat := 2 ^ 127 - 1

def signedKw (kw : String) : Bool := kw == "i8" || kw == "i16" || kw == "i32" || kw == "i64" || kw == "i128"

/-- would the first-generation parser make this literal a `SignedIntegerLiteral` -/
def IntKind.isSigned (k : IntKind) (v : Nat) : Bool :=
  match k with
  | .naked => v ≤ i128Max
  | .suffixed vt => signedKw vt && v ≤ i128Max
  | _ => false

def showTy : Ty → String
  | .simple kw => s!"(simple {kw})"
  | .named id => s!"(named {id})"
  | .ptr t => s!"(ptr {showTy t})"
  | .view t => s!"(view {showTy t})"
  | .arraylike t => s!"(arraylike {showTy t})"
  | .slice t => s!"(slice {showTy t})"
  | .endless t => s!"(endless {showTy t})"
  | .array n t => s!"(array {n} {showTy t})"
  | .arrayNamed id t => s!"(arraynamed {id} {showTy t})"

def showIntTy : IntKind → String
  | .suffixed vt => s!"(simple {vt})"
  | .char => "(simple char8)"
  | _ => "_"

def hexDigit (n : Nat) : Char := if n < 10 then Char.ofNat (48 + n) else Char.ofNat (87 + n)

def hexOfString (s : String) : String :=
  String.ofList (s.toUTF8.toList.flatMap (fun b => [hexDigit (b.toNat / 16), hexDigit (b.toNat % 16)]))

mutual
def showExpr : Expr → String
  | .int k v => s!"(int {v} {showIntTy k})"
  | .bool v => s!"(bool {v})"
  | .str parts => "(str" ++ String.join (parts.map (fun p => " r" ++ hexOfString p)) ++ ")"
  | .array es => "(array" ++ showExprs es ++ ")"
  | .structural name fs => s!"(structural (named {name})" ++ showFields fs ++ ")"
  | .paren e => s!"(paren {showExpr e})"
  | .deref d name st => s!"(deref {d} {name} (steps{showSteps st}))"
  | .call name b args => s!"(call {name} {if b then 1 else 0}" ++ showExprs args ++ ")"
  | .bin op l r => s!"(bin {reprStr op |>.replace "Syn.BinOp." ""} {showExpr l} {showExpr r})"
  | .un .Negative (.int k v) =>
    -- the first generation folds the sign into a signed literal
    if v > 0 && k.isSigned v then s!"(int -{v} {showIntTy k})" else s!"(un Negative (int {v} {showIntTy k}))"
  | .un op e => s!"(un {reprStr op |>.replace "Syn.UnOp." ""} {showExpr e})"
  | .bitcast e => s!"(bitcast {showExpr e})"
  | .typecast e t => s!"(typecast {showExpr e} {showTy t})"
  | .lengthOf d name st => s!"(lengthof {d} {name} (steps{showSteps st}))"
  | .sizeOf t => s!"(sizeof {showTy t})"
def showExprs : Exprs → String
  | .nil => ""
  | .cons e es => " " ++ showExpr e ++ showExprs es
def showSteps : Steps → String
  | .nil => ""
  | .member id rest => s!" (member {id})" ++ showSteps rest
  | .elem e rest => s!" (elem {showExpr e})" ++ showSteps rest
def showFields : Fields → String
  | .nil => ""
  | .cons name e rest => s!" (f {name} {showExpr e})" ++ showFields rest
end

def showCmp (op : CmpOp) (l r : Expr) : String :=
  s!"(cmp {reprStr op |>.replace "Syn.CmpOp." ""} {showExpr l} {showExpr r})"

mutual
def showStmt : Stmt → String
  | .var name ty val =>
    let t := match ty with | some t => showTy t | none => "_"
    let v := match val with | some e => showExpr e | none => "_"
    s!"(var {name} {t} {v})"
  | .assign d name st e => s!"(assign (ref {d} {name} (steps{showSteps st})) {showExpr e})"
  | .mcall name b args => s!"(mcall {name} {if b then 1 else 0}" ++ showExprs args ++ ")"
  | .loop => "(loop)"
  | .goto l => s!"(goto {l})"
  | .label l => s!"(label {l})"
  | .ifThen op l r th => s!"(if {showCmp op l r} {showStmt th})"
  | .ifElse op l r th el => s!"(if {showCmp op l r} {showStmt th} {showStmt el})"
  | .block ss => "(block" ++ showStmts ss ++ ")"
def showStmts : Stmts → String
  | .nil => ""
  | .cons s ss => " " ++ showStmt s ++ showStmts ss
end

def showFlags (f : Flags) : String :=
  let l := (if f.pub then ["Public"] else []) ++ (if f.ext then ["External"] else []) ++ (if f.isOpaque then ["OpaqueStruct"] else [])
  if l.isEmpty then "_" else "|".intercalate l

def showDecl : Decl → String
  | .imp raw => s!"(import r{hexOfString raw})"
  | .const fl name ty e => s!"(const {showFlags fl} {name} {showTy ty} {showExpr e})"
  | .fn fl name params ret body =>
    let ps := String.join (params.map (fun (n, t) => s!" (p {n} {showTy t})"))
    let b := match body with
      | none => "_"
      | some (ss, rv) => s!"(body (stmts{showStmts ss}) {match rv with | some e => showExpr e | none => "_"})"
    s!"(fn {showFlags fl} {name} (params{ps}) {showTy ret} {b})"
  | .struct fl name ws members =>
    let ms := String.join (members.map (fun (n, t) => s!" (m {n} {showTy t})"))
    let size := match ws with | some n => toString n | none => "-1"
    s!"(struct {showFlags fl} {name} {size} (members{ms}))"

def showModule (ds : List Decl) : String :=
  "(module" ++ String.join (ds.map (fun d => " " ++ showDecl d)) ++ ")"

end Syn
