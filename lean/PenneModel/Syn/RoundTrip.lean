/-
  parse ∘ print = norm, for expressions: helper lemmas.
-/
import PenneModel.Syn.Canon

namespace Syn
open Flat (Kind)

@[simp] theorem kindOf_cons (t : Tok) (ts : List Tok) : kindOf (t :: ts) = t.kind := rfl
@[simp] theorem kindOf_nil : kindOf [] = .EndOfSource := rfl

theorem parseExpr_succ (f : Nat) (ts : List Tok) :
    parseExpr (f + 1) ts = (parseMult f ts).bind (fun p => addLoop f p.1 p.2) := by
  rw [parseExpr]
  cases parseMult f ts <;> rfl

theorem parseMult_succ (f : Nat) (ts : List Tok) :
    parseMult (f + 1) ts = (parseSingular f ts).bind (fun p => multLoop f p.1 p.2) := by
  rw [parseMult]
  cases parseSingular f ts <;> rfl

theorem addLoop_stop (f : Nat) (e : Expr) (ts : List Tok) (h : stopA ts = true) :
    addLoop (f + 1) e ts = some (e, ts) := by
  rw [addLoop]
  simp only [stopA, Bool.and_eq_true, bne_iff_ne, ne_eq] at h
  split <;> simp_all

theorem multLoop_stop (f : Nat) (e : Expr) (ts : List Tok) (h : stopM ts = true) :
    multLoop (f + 1) e ts = some (e, ts) := by
  rw [multLoop]
  simp only [stopM, Bool.and_eq_true, bne_iff_ne, ne_eq] at h
  split <;> simp_all

theorem asLoop_stop (f : Nat) (e : Expr) (ts : List Tok) (h : stopS ts = true) :
    asLoop (f + 1) e ts = some (e, ts) := by
  rw [asLoop]
  simp only [stopS, Bool.and_eq_true, bne_iff_ne, ne_eq] at h
  simp [h.2]

/-! ### the claims

Each parsing function spends one unit of fuel per call, so the claim for a level asks for a little more fuel than
the claim for the level below; `need` leaves room for all of them. -/

def PrimC (e : Expr) : Prop :=
  ∀ f rest, e.need ≤ f → stopP rest = true → parsePrimary f (printExpr e ++ rest) = some (e.norm, rest)

def UnC (e : Expr) : Prop :=
  ∀ f rest, e.need + 1 ≤ f → stopP rest = true → parseUnary f (printExpr e ++ rest) = some (e.norm, rest)

def SingK (e : Expr) : Prop :=
  ∀ f rest, e.need + 1 ≤ f → stopP rest = true →
    ∃ g, g ≤ f ∧ f ≤ g + e.size ∧ parseSingular (f + 1) (printExpr e ++ rest) = asLoop g e.norm rest

def SingC (e : Expr) : Prop :=
  ∀ f rest, e.need + 2 ≤ f → stopS rest = true → parseSingular f (printExpr e ++ rest) = some (e.norm, rest)

def MultK (e : Expr) : Prop :=
  ∀ f rest, e.need + 2 ≤ f → stopS rest = true →
    ∃ g, g ≤ f ∧ f ≤ g + e.size ∧ parseMult (f + 1) (printExpr e ++ rest) = multLoop g e.norm rest

def MultC (e : Expr) : Prop :=
  ∀ f rest, e.need + 3 ≤ f → stopM rest = true → parseMult f (printExpr e ++ rest) = some (e.norm, rest)

def AddK (e : Expr) : Prop :=
  ∀ f rest, e.need + 3 ≤ f → stopM rest = true →
    ∃ g, g ≤ f ∧ f ≤ g + e.size ∧ parseExpr (f + 1) (printExpr e ++ rest) = addLoop g e.norm rest

def BitK (k : Kind) (op : BinOp) (e : Expr) : Prop :=
  ∀ f rest, e.need + 3 ≤ f → stopP rest = true →
    ∃ g, g ≤ f ∧ f ≤ g + e.size ∧ parseExpr (f + 1) (printExpr e ++ rest) =
      (if kindOf rest = k then bitwiseLoop g k op e.norm (rest.drop 1) else some (e.norm, rest))

def TopC (e : Expr) : Prop :=
  ∀ f rest, e.need + 4 ≤ f → stopA rest = true → parseExpr f (printExpr e ++ rest) = some (e.norm, rest)

theorem size_pos (e : Expr) : 1 ≤ e.size := by cases e <;> simp [Expr.size] <;> omega

theorem need_eq (e : Expr) : e.need = 16 * e.size := rfl

theorem stopP_of_stopS {r : List Tok} (h : stopS r = true) : stopP r = true := by
  simp only [stopS, Bool.and_eq_true] at h; exact h.1
theorem stopS_of_stopM {r : List Tok} (h : stopM r = true) : stopS r = true := by
  simp only [stopM, Bool.and_eq_true] at h; exact h.1.1.1
theorem stopM_of_stopA {r : List Tok} (h : stopA r = true) : stopM r = true := by
  simp only [stopA, Bool.and_eq_true] at h; exact h.1.1.1.1.1.1.1

theorem singC_of_singK {e : Expr} (h : SingK e) : SingC e := by
  intro f rest hf hs
  have := size_pos e
  have := need_eq e
  obtain ⟨f', rfl⟩ : ∃ f', f = f' + 1 := ⟨f - 1, by omega⟩
  obtain ⟨g, hg1, hg2, heq⟩ := h f' rest (by omega) (stopP_of_stopS hs)
  rw [heq]
  obtain ⟨g', rfl⟩ : ∃ g', g = g' + 1 := ⟨g - 1, by omega⟩
  exact asLoop_stop g' _ _ hs

theorem multK_of_singC {e : Expr} (h : SingC e) : MultK e := by
  intro f rest hf hs
  refine ⟨f, Nat.le_refl _, by omega, ?_⟩
  rw [parseMult_succ, h f rest hf hs]
  rfl

theorem multC_of_multK {e : Expr} (h : MultK e) : MultC e := by
  intro f rest hf hs
  have := size_pos e
  have := need_eq e
  obtain ⟨f', rfl⟩ : ∃ f', f = f' + 1 := ⟨f - 1, by omega⟩
  obtain ⟨g, hg1, hg2, heq⟩ := h f' rest (by omega) (stopS_of_stopM hs)
  rw [heq]
  obtain ⟨g', rfl⟩ : ∃ g', g = g' + 1 := ⟨g - 1, by omega⟩
  exact multLoop_stop g' _ _ hs

theorem addK_of_multC {e : Expr} (h : MultC e) : AddK e := by
  intro f rest hf hs
  refine ⟨f, Nat.le_refl _, by omega, ?_⟩
  rw [parseExpr_succ, h f rest hf hs]
  rfl

theorem topC_of_addK {e : Expr} (h : AddK e) : TopC e := by
  intro f rest hf hs
  have := size_pos e
  have := need_eq e
  obtain ⟨f', rfl⟩ : ∃ f', f = f' + 1 := ⟨f - 1, by omega⟩
  obtain ⟨g, hg1, hg2, heq⟩ := h f' rest (by omega) (stopM_of_stopA hs)
  rw [heq]
  obtain ⟨g', rfl⟩ : ∃ g', g = g' + 1 := ⟨g - 1, by omega⟩
  exact addLoop_stop g' _ _ hs

/-! ### the first token of a printed expression -/

def headKind : Expr → Kind
  | .int k v => (printInt k v).kind
  | .bool _ => .BoolLiteral
  | .str _ => .StringLiteral
  | .array _ => .BracketLeft
  | .structural _ _ => .Identifier
  | .paren _ => .ParenLeft
  | .deref d _ _ => if d = 0 then .Identifier else .Ampersand
  | .call _ b _ => if b then .Builtin else .Identifier
  | .bin _ l _ => headKind l
  | .un op _ => unTok op
  | .bitcast _ => .Cast
  | .typecast e _ => headKind e
  | .lengthOf _ _ _ => .Pipe
  | .sizeOf _ => .PipeForType

theorem print_head : ∀ e : Expr, ∃ t ts, printExpr e = t :: ts ∧ t.kind = headKind e
  | .int k v => ⟨_, [], by simp [printExpr], rfl⟩
  | .bool v => ⟨{ kind := .BoolLiteral, val := v }, [], by simp only [printExpr], rfl⟩
  | .str parts => ⟨{ kind := .StringLiteral, text := String.join parts }, [], by simp only [printExpr], rfl⟩
  | .array _ => ⟨_, _, by simp only [printExpr]; rfl, rfl⟩
  | .structural _ _ => ⟨_, _, by simp only [printExpr]; rfl, rfl⟩
  | .paren _ => ⟨_, _, by simp only [printExpr]; rfl, rfl⟩
  | .deref 0 _ _ => ⟨_, _, by simp only [printExpr, amps, List.nil_append]; rfl, rfl⟩
  | .deref (d + 1) _ _ => ⟨_, _, by simp only [printExpr, amps, List.cons_append]; rfl, rfl⟩
  | .call _ b _ => ⟨_, _, by simp only [printExpr]; rfl, by cases b <;> rfl⟩
  | .bin _ l _ => by
    obtain ⟨t, ts, h1, h2⟩ := print_head l
    exact ⟨t, _, by simp only [printExpr, h1, List.cons_append]; rfl, by simpa [headKind] using h2⟩
  | .un _ _ => ⟨_, _, by simp only [printExpr]; rfl, rfl⟩
  | .bitcast _ => ⟨_, _, by simp only [printExpr]; rfl, rfl⟩
  | .typecast e _ => by
    obtain ⟨t, ts, h1, h2⟩ := print_head e
    exact ⟨t, _, by simp only [printExpr, h1, List.cons_append]; rfl, by simpa [headKind] using h2⟩
  | .lengthOf _ _ _ => ⟨_, _, by simp only [printExpr]; rfl, rfl⟩
  | .sizeOf _ => ⟨_, _, by simp only [printExpr]; rfl, rfl⟩

theorem kindOf_print (e : Expr) (rest : List Tok) : kindOf (printExpr e ++ rest) = headKind e := by
  obtain ⟨t, ts, h1, h2⟩ := print_head e
  simp [h1, h2]

def primHead (k : Kind) : Bool :=
  k == .NakedDecimal || k == .BitInteger || k == .BoolLiteral || k == .StringLiteral || k == .BracketLeft
    || k == .Identifier || k == .Builtin || k == .ParenLeft || k == .Ampersand

def unaryHead (k : Kind) : Bool := primHead k || k == .Pipe || k == .PipeForType || k == .Minus || k == .Exclamation

def exprHead (k : Kind) : Bool := unaryHead k || k == .Cast

theorem printInt_kind (k : IntKind) (v : Nat) : (printInt k v).kind = .NakedDecimal ∨ (printInt k v).kind = .BitInteger := by
  unfold printInt; split <;> simp

theorem head_prim (e : Expr) (h : e.lvl = some 0) : primHead (headKind e) = true := by
  cases e with
  | int k v => rcases printInt_kind k v with h | h <;> simp [headKind, primHead, h]
  | deref d _ _ => cases d <;> simp [headKind, primHead]
  | call _ b _ => cases b <;> simp [headKind, primHead]
  | bin op l r => cases op <;> simp [Expr.lvl] at h <;> split at h <;> simp at h
  | un _ _ => simp [Expr.lvl] at h
  | bitcast _ => simp [Expr.lvl] at h
  | typecast _ _ => simp [Expr.lvl] at h
  | lengthOf _ _ _ => simp [Expr.lvl] at h
  | sizeOf _ => simp [Expr.lvl] at h
  | _ => simp [headKind, primHead]

theorem unC_of_primC {e : Expr} (h : PrimC e) (hh : primHead (headKind e) = true) : UnC e := by
  intro f rest hf hs
  obtain ⟨f', rfl⟩ : ∃ f', f = f' + 1 := ⟨f - 1, by omega⟩
  rw [parseUnary]
  have hk := kindOf_print e rest
  simp only [primHead, Bool.or_eq_true, beq_iff_eq] at hh
  split
  · rename_i h1; rw [hk] at h1; simp [h1] at hh
  · rename_i h1; rw [hk] at h1; simp [h1] at hh
  · rename_i h1; rw [hk] at h1; simp [h1] at hh
  · rename_i h1; rw [hk] at h1; simp [h1] at hh
  · exact h f' rest (by omega) hs

theorem head_unary (e : Expr) (l : Nat) (h : e.lvl = some l) (hl : l ≤ 1) : unaryHead (headKind e) = true := by
  by_cases h0 : l = 0
  · subst h0; simp [unaryHead, head_prim e h]
  · have h1 : l = 1 := by omega
    subst h1
    cases e with
    | un op _ => cases op <;> simp [headKind, unaryHead, unTok]
    | lengthOf _ _ _ => simp [headKind, unaryHead]
    | sizeOf _ => simp [headKind, unaryHead]
    | bin op l r => cases op <;> simp [Expr.lvl] at h <;> split at h <;> simp at h
    | array _ => simp [Expr.lvl] at h
    | structural _ _ => simp [Expr.lvl] at h
    | paren _ => simp [Expr.lvl] at h
    | deref _ _ _ => simp [Expr.lvl] at h
    | call _ _ _ => simp [Expr.lvl] at h
    | bitcast _ => simp [Expr.lvl] at h
    | typecast _ _ => simp [Expr.lvl] at h
    | _ => simp [Expr.lvl] at h

theorem singK_of_unC {e : Expr} (h : UnC e) (hh : headKind e ≠ .Cast) : SingK e := by
  intro f rest hf hs
  refine ⟨f, Nat.le_refl _, by omega, ?_⟩
  rw [parseSingular]
  have hk := kindOf_print e rest
  simp only [hk, hh, if_false]
  rw [h f rest hf hs]
  rfl

/-! ### packaging: from the claim at an expression's own level to the claims of all higher levels -/

def ExprClaims (e : Expr) (l : Nat) : Prop :=
  (l = 0 → PrimC e) ∧ (l ≤ 1 → UnC e) ∧ (l ≤ 2 → SingK e) ∧ (l ≤ 3 → MultK e) ∧ (l ≤ 4 → AddK e) ∧
  (l = 5 → BitK .Ampersand .BitwiseAnd e) ∧ (l = 6 → BitK .Pipe .BitwiseOr e) ∧ (l = 7 → BitK .Caret .BitwiseXor e) ∧
  TopC e

theorem claims_of_addK {e : Expr} {l : Nat} (hl : l = 4) (h : AddK e) : ExprClaims e l := by
  subst hl
  exact ⟨by omega, by omega, by omega, by omega, fun _ => h, by omega, by omega, by omega, topC_of_addK h⟩

theorem claims_of_multK {e : Expr} {l : Nat} (hl : l = 3) (h : MultK e) : ExprClaims e l := by
  subst hl
  have ha := addK_of_multC (multC_of_multK h)
  exact ⟨by omega, by omega, by omega, fun _ => h, fun _ => ha, by omega, by omega, by omega, topC_of_addK ha⟩

theorem claims_of_singK {e : Expr} {l : Nat} (hl : l = 2) (h : SingK e) : ExprClaims e l := by
  subst hl
  have hm := multK_of_singC (singC_of_singK h)
  have ha := addK_of_multC (multC_of_multK hm)
  exact ⟨by omega, by omega, fun _ => h, fun _ => hm, fun _ => ha, by omega, by omega, by omega, topC_of_addK ha⟩

theorem cast_not_unaryHead {k : Kind} (h : unaryHead k = true) : k ≠ .Cast := by
  intro hk; subst hk; simp [unaryHead, primHead] at h

theorem claims_of_unC {e : Expr} {l : Nat} (hl : l = 1) (hlvl : e.lvl = some l) (h : UnC e) : ExprClaims e l := by
  subst hl
  have hs := singK_of_unC h (cast_not_unaryHead (head_unary e 1 hlvl (by omega)))
  have hm := multK_of_singC (singC_of_singK hs)
  have ha := addK_of_multC (multC_of_multK hm)
  exact ⟨by omega, fun _ => h, fun _ => hs, fun _ => hm, fun _ => ha, by omega, by omega, by omega, topC_of_addK ha⟩

theorem claims_of_primC {e : Expr} {l : Nat} (hl : l = 0) (hlvl : e.lvl = some l) (h : PrimC e) : ExprClaims e l := by
  subst hl
  have hu := unC_of_primC h (head_prim e hlvl)
  have hs := singK_of_unC hu (cast_not_unaryHead (head_unary e 0 hlvl (by omega)))
  have hm := multK_of_singC (singC_of_singK hs)
  have ha := addK_of_multC (multC_of_multK hm)
  exact ⟨fun _ => h, fun _ => hu, fun _ => hs, fun _ => hm, fun _ => ha, by omega, by omega, by omega, topC_of_addK ha⟩

/-! ### lists -/

def Exprs.need (es : Exprs) : Nat := 16 * es.size
def Steps.need (st : Steps) : Nat := 16 * st.size
def Fields.need (fs : Fields) : Nat := 16 * fs.size

/-- arguments: separated by commas, then the closing token -/
def ArgsC (es : Exprs) : Prop :=
  ∀ f rest, es.need ≤ f → parseArgs f .ParenRight (printArgs es ++ tk .ParenRight :: rest) = some (es.norm, rest)

/-- array elements: each followed by a comma, then the closing bracket -/
def ElemsC (es : Exprs) : Prop :=
  ∀ f rest, es.need ≤ f → parseArgs f .BracketRight (printElems es ++ tk .BracketRight :: rest) = some (es.norm, rest)

def StepsC (st : Steps) : Prop :=
  ∀ f budget rest, st.need ≤ f → st.count < budget → kindOf rest ≠ .BracketLeft → kindOf rest ≠ .Dot →
    parseSteps f budget (printSteps st ++ rest) = some (st.norm, rest)

def FieldsC (fs : Fields) : Prop :=
  ∀ f rest, fs.need ≤ f → parseFields f (printFields fs ++ tk .BraceRight :: rest) = some (fs.norm, rest)

def All (n : Nat) : Prop :=
  (∀ e : Expr, e.size ≤ n → ∀ l, e.lvl = some l → ExprClaims e l) ∧
  (∀ es : Exprs, es.size ≤ n → es.ok = true → ArgsC es ∧ ElemsC es) ∧
  (∀ st : Steps, st.size ≤ n → st.ok = true → StepsC st) ∧
  (∀ fs : Fields, fs.size ≤ n → fs.ok = true → FieldsC fs)

theorem eatAmps_amps (n : Nat) : ∀ (b : Nat) (t : Tok) (ts : List Tok), n ≤ b → t.kind ≠ .Ampersand →
    eatAmps b (amps n ++ t :: ts) = some (n, t :: ts) := by
  induction n with
  | zero => intro b t ts _ ht; simp only [amps, List.nil_append]; rw [eatAmps.eq_def]; simp [ht]
  | succ n ih =>
    intro b t ts hb ht
    obtain ⟨b', rfl⟩ : ∃ b', b = b' + 1 := ⟨b - 1, by omega⟩
    simp only [amps, List.cons_append]; rw [eatAmps.eq_def]; simp [tk, ih b' t ts (by omega) ht]

theorem leN_isSome {o : Option Nat} {n : Nat} (h : leN o n = true) : o.isSome = true := by
  cases o <;> simp [leN] at h ⊢

theorem head_expr : ∀ (e : Expr), e.lvl.isSome = true → exprHead (headKind e) = true
  | .int k v, _ => by rcases printInt_kind k v with h | h <;> simp [headKind, exprHead, unaryHead, primHead, h]
  | .bool _, _ => by simp [headKind, exprHead, unaryHead, primHead]
  | .str _, _ => by simp [headKind, exprHead, unaryHead, primHead]
  | .array _, _ => by simp [headKind, exprHead, unaryHead, primHead]
  | .structural _ _, _ => by simp [headKind, exprHead, unaryHead, primHead]
  | .paren _, _ => by simp [headKind, exprHead, unaryHead, primHead]
  | .deref d _ _, _ => by cases d <;> simp [headKind, exprHead, unaryHead, primHead]
  | .call _ b _, _ => by cases b <;> simp [headKind, exprHead, unaryHead, primHead]
  | .un op _, _ => by cases op <;> simp [headKind, exprHead, unaryHead, primHead, unTok]
  | .bitcast _, _ => by simp [headKind, exprHead]
  | .lengthOf _ _ _, _ => by simp [headKind, exprHead, unaryHead]
  | .sizeOf _, _ => by simp [headKind, exprHead, unaryHead]
  | .typecast e _, h => by
    have : e.lvl.isSome = true := by
      simp only [Expr.lvl] at h
      split at h
      · rename_i hc; exact leN_isSome hc
      · simp at h
    simpa [headKind] using head_expr e this
  | .bin op l r, h => by
    have : l.lvl.isSome = true := by
      cases op <;> simp [Expr.lvl] at h
      all_goals first
        | exact leN_isSome h.1
        | (rcases h.1 with h1 | h1
           · exact leN_isSome h1
           · simp [h1])
    simpa [headKind] using head_expr l this

end Syn
