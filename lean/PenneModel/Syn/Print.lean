/-
  The rebuilder (src/alpha/rebuilder.rs) at token level: one printing arm per node kind, in the
  order of the source.  Layout is not modelled (tokens only); the `#`-markers the rebuilder adds
  to structure types are not tokens of the language and are left out (known finding F27/F28).
  Literals are printed the way the rebuilder spells them: a signed literal in decimal, any other
  integer (suffixed unsigned, hexadecimal, binary, character) as a hexadecimal bit integer, the
  pieces of a string literal as one literal.
-/
import PenneModel.Syn.Ast

namespace Syn
open Flat (Kind)

def tk (k : Kind) : Tok := { kind := k }
def tId (s : String) : Tok := { kind := .Identifier, text := s }

def printTy : Ty → List Tok
  | .simple kw => [{ kind := .ValueTypeKeyword, vt := kw }]
  | .named id => [tId id]
  | .ptr t => tk .Ampersand :: printTy t
  | .view t => tk .ParenLeft :: printTy t ++ [tk .ParenRight]
  | .arraylike t => tk .BracketLeft :: tk .BracketRight :: printTy t
  | .slice t => tk .BracketLeft :: tk .Colon :: tk .BracketRight :: printTy t
  | .endless t => tk .BracketLeft :: tk .Dots :: tk .BracketRight :: printTy t
  | .array n t => tk .BracketLeft :: { kind := .NakedDecimal, val := n } :: tk .BracketRight :: printTy t
  | .arrayNamed id t => tk .BracketLeft :: tId id :: tk .BracketRight :: printTy t

def binTok : BinOp → Kind
  | .Add => .Plus | .Subtract => .Minus | .Multiply => .Times | .Divide => .Divide | .Modulo => .Modulo
  | .BitwiseAnd => .Ampersand | .BitwiseOr => .Pipe | .BitwiseXor => .Caret
  | .ShiftLeft => .ShiftLeft | .ShiftRight => .ShiftRight | .AdvancePointer => .Dots

def unTok : UnOp → Kind
  | .Negative => .Minus
  | .BitwiseComplement => .Exclamation

def cmpTok : CmpOp → Kind
  | .Equals => .Equals | .DoesNotEqual => .DoesNotEqual | .IsGreater => .AngleRight | .IsGE => .IsGE
  | .IsLess => .AngleLeft | .IsLE => .IsLE

/-- the kind a literal has after one trip through the rebuilder -/
def normKind (k : IntKind) (v : Nat) : IntKind := if k.isSigned v then .naked else .bit

def printInt (k : IntKind) (v : Nat) : Tok :=
  if k.isSigned v then { kind := .NakedDecimal, val := v } else { kind := .BitInteger, val := v }

def amps : Nat → List Tok
  | 0 => []
  | n + 1 => tk .Ampersand :: amps n

mutual
def printExpr : Expr → List Tok
  | .int k v => [printInt k v]
  | .bool v => [{ kind := .BoolLiteral, val := v }]
  | .str parts => [{ kind := .StringLiteral, text := String.join parts }]
  | .array es => tk .BracketLeft :: printElems es ++ [tk .BracketRight]
  | .structural name fs => tId name :: tk .BraceLeft :: printFields fs ++ [tk .BraceRight]
  | .paren e => tk .ParenLeft :: printExpr e ++ [tk .ParenRight]
  | .deref d name st => amps d ++ tId name :: printSteps st
  | .call name b args =>
    { kind := if b then .Builtin else .Identifier, text := name } :: tk .ParenLeft :: printArgs args ++ [tk .ParenRight]
  | .bin op l r => printExpr l ++ tk (binTok op) :: printExpr r
  | .un op e => tk (unTok op) :: printExpr e
  | .bitcast e => tk .Cast :: printExpr e
  | .typecast e t => printExpr e ++ tk .As :: printTy t
  | .lengthOf d name st => tk .Pipe :: amps d ++ tId name :: printSteps st ++ [tk .Pipe]
  | .sizeOf t => tk .PipeForType :: printTy t ++ [tk .Pipe]
/-- array elements: every element is followed by a comma -/
def printElems : Exprs → List Tok
  | .nil => []
  | .cons e es => printExpr e ++ tk .Comma :: printElems es
/-- arguments: separated by commas -/
def printArgs : Exprs → List Tok
  | .nil => []
  | .cons e .nil => printExpr e
  | .cons e es => printExpr e ++ tk .Comma :: printArgs es
def printSteps : Steps → List Tok
  | .nil => []
  | .member id rest => tk .Dot :: tId id :: printSteps rest
  | .elem e rest => tk .BracketLeft :: printExpr e ++ tk .BracketRight :: printSteps rest
def printFields : Fields → List Tok
  | .nil => []
  | .cons name e rest => tId name :: tk .Colon :: printExpr e ++ tk .Comma :: printFields rest
end

mutual
def printStmt : Stmt → List Tok
  | .var name ty val =>
    tk .Var :: tId name ::
      (match ty with | some t => tk .Colon :: printTy t | none => []) ++
      (match val with | some e => tk .Assignment :: printExpr e | none => []) ++ [tk .Semicolon]
  | .assign d name st e => amps d ++ tId name :: printSteps st ++ tk .Assignment :: printExpr e ++ [tk .Semicolon]
  | .mcall name b args =>
    { kind := if b then .Builtin else .Identifier, text := name } :: tk .ParenLeft :: printArgs args ++
      [tk .ParenRight, tk .Semicolon]
  | .loop => [tk .Loop, tk .Semicolon]
  | .goto l => [tk .Goto, if l == "return" then { kind := .Return, text := l } else tId l, tk .Semicolon]
  | .label l => [tId l, tk .Colon]
  | .ifThen op l r th => tk .If :: printExpr l ++ tk (cmpTok op) :: printExpr r ++ printStmt th
  | .ifElse op l r th el =>
    tk .If :: printExpr l ++ tk (cmpTok op) :: printExpr r ++ printStmt th ++ tk .Else :: printStmt el
  | .block ss => tk .BraceLeft :: printStmts ss ++ [tk .BraceRight]
def printStmts : Stmts → List Tok
  | .nil => []
  | .cons s ss => printStmt s ++ printStmts ss
end

def printTyped : List (String × Ty) → List Tok
  | [] => []
  | [(n, t)] => tId n :: tk .Colon :: printTy t
  | (n, t) :: rest => tId n :: tk .Colon :: printTy t ++ tk .Comma :: printTyped rest

def printMembers : List (String × Ty) → List Tok
  | [] => []
  | (n, t) :: rest => tId n :: tk .Colon :: printTy t ++ tk .Comma :: printMembers rest

def printFlags (f : Flags) : List Tok :=
  (if f.pub then [tk .Pub] else []) ++ (if f.ext then [tk .Extern] else [])

def wordKind : Nat → Kind
  | 1 => .Word8 | 2 => .Word16 | 4 => .Word32 | 8 => .Word64 | _ => .Word128

def printDecl : Decl → List Tok
  | .imp raw => [tk .Import, { kind := .StringLiteral, text := raw }, tk .Semicolon]
  | .const fl name ty e =>
    printFlags fl ++ tk .Const :: tId name :: tk .Colon :: printTy ty ++ tk .Assignment :: printExpr e ++ [tk .Semicolon]
  | .fn fl name params ret body =>
    printFlags fl ++ tk .Fn :: tId name :: tk .ParenLeft :: printTyped params ++ tk .ParenRight ::
      (if ret = .simple "void" then [] else tk .Arrow :: printTy ret) ++
      (match body with
       | none => [tk .Semicolon]
       | some (ss, none) => tk .BraceLeft :: printStmts ss ++ [tk .BraceRight]
       | some (ss, some e) => tk .BraceLeft :: printStmts ss ++ tk .Return :: tk .Colon :: printExpr e ++ [tk .BraceRight])
  | .struct fl name ws members =>
    printFlags fl ++ tk (match ws with | none => .Struct | some n => wordKind n) :: tId name ::
      (if fl.isOpaque then [tk .Semicolon] else tk .BraceLeft :: printMembers members ++ [tk .BraceRight])

def printModule (ds : List Decl) : List Tok :=
  (ds.flatMap printDecl) ++ [tk .EndOfSource, tk .EndOfSource]

/-- render a token for the wire: `Kind:text-hex:val:vt` -/
def showTok (t : Tok) : String := s!"{t.kind.name}:{hexOfString t.text}:{t.val}:{t.vt}"

end Syn
