/-
  The reference parser: the grammar of src/delta/parser.rs (which mirrors src/alpha/parser.rs)
  as a tree-building recursive descent over a token list.  Fuel is the recursion budget; every
  call site passes `fuel`, every definition consumes one unit.  `none` stands for any syntax
  error (the error paths are modelled in Flat/Parser.lean, not here).
-/
import PenneModel.Syn.Ast
import PenneModel.Flat.Parser

namespace Syn
open Flat (Kind)

def kindOf : List Tok → Kind
  | [] => .EndOfSource
  | t :: _ => t.kind

/-- `tokens.consume(k)?` -/
def eat (k : Kind) : List Tok → Option (Tok × List Tok)
  | [] => none
  | t :: ts => if t.kind = k then some (t, ts) else none

def parseInnerType : Nat → List Tok → Option (Ty × List Tok)
  | 0, _ => none
  | _, [] => none
  | fuel + 1, t :: ts =>
    match t.kind with
    | .ValueTypeKeyword => some (.simple t.vt, ts)
    | .Identifier => some (.named t.text, ts)
    | .Ampersand => do
      let (i, r) ← parseInnerType fuel ts
      some (.ptr i, r)
    | .ParenLeft => do
      let (i, r) ← parseInnerType fuel ts
      let (_, r) ← eat .ParenRight r
      some (.view i, r)
    | .BracketLeft =>
      match ts with
      | [] => none
      | l :: ts' =>
        match l.kind with
        | .BracketRight => do
          let (i, r) ← parseInnerType fuel ts'
          some (.arraylike i, r)
        | .Colon => do
          let (_, r) ← eat .BracketRight ts'
          let (i, r) ← parseInnerType fuel r
          some (.slice i, r)
        | .Dots => do
          let (_, r) ← eat .BracketRight ts'
          let (i, r) ← parseInnerType fuel r
          some (.endless i, r)
        | .NakedDecimal => do
          let (_, r) ← eat .BracketRight ts'
          let (i, r) ← parseInnerType fuel r
          some (.array l.val i, r)
        | .Identifier => do
          let (_, r) ← eat .BracketRight ts'
          let (i, r) ← parseInnerType fuel r
          some (.arrayNamed l.text i, r)
        | _ => none
    | _ => none

/-- `parse_type` (the composite wrapper is layout, not syntax) -/
def parseType (fuel : Nat) (ts : List Tok) : Option (Ty × List Tok) := parseInnerType fuel ts

/-- `while tokens.consume_optional(Ampersand)` with the depth limit: at most `budget` more -/
def eatAmps : Nat → List Tok → Option (Nat × List Tok)
  | budget, t :: ts =>
    if t.kind = .Ampersand then
      match budget with
      | 0 => none
      | b + 1 => do
        let (n, r) ← eatAmps b ts
        some (n + 1, r)
    else some (0, t :: ts)
  | _, [] => some (0, [])

def cmpOpOf : Kind → Option CmpOp
  | .Equals => some .Equals
  | .DoesNotEqual => some .DoesNotEqual
  | .AngleLeft => some .IsLess
  | .AngleRight => some .IsGreater
  | .IsGE => some .IsGE
  | .IsLE => some .IsLE
  | _ => none

def eatStrings : List Tok → List String × List Tok
  | t :: ts => if t.kind = .StringLiteral then let (ps, r) := eatStrings ts; (t.text :: ps, r) else ([], t :: ts)
  | [] => ([], [])

mutual
/-- `parse_expression` = `parse_addition` -/
def parseExpr : Nat → List Tok → Option (Expr × List Tok)
  | 0, _ => none
  | fuel + 1, ts => do
    let (e, r) ← parseMult fuel ts
    addLoop fuel e r

def addLoop : Nat → Expr → List Tok → Option (Expr × List Tok)
  | 0, _, _ => none
  | fuel + 1, e, ts =>
    match kindOf ts with
    | .Ampersand => bitwiseLoop fuel .Ampersand .BitwiseAnd e (ts.drop 1)
    | .Pipe => bitwiseLoop fuel .Pipe .BitwiseOr e (ts.drop 1)
    | .Caret => bitwiseLoop fuel .Caret .BitwiseXor e (ts.drop 1)
    | .ShiftLeft => do
      let (r, rest) ← parseUnary fuel (ts.drop 1)
      some (.bin .ShiftLeft e r, rest)
    | .ShiftRight => do
      let (r, rest) ← parseUnary fuel (ts.drop 1)
      some (.bin .ShiftRight e r, rest)
    | .Plus => do
      let (r, rest) ← parseMult fuel (ts.drop 1)
      addLoop fuel (.bin .Add e r) rest
    | .Minus => do
      let (r, rest) ← parseMult fuel (ts.drop 1)
      addLoop fuel (.bin .Subtract e r) rest
    | _ => some (e, ts)

/-- `parse_rest_of_bitwise_expression` after its operator token -/
def bitwiseLoop : Nat → Kind → BinOp → Expr → List Tok → Option (Expr × List Tok)
  | 0, _, _, _, _ => none
  | fuel + 1, k, op, e, ts => do
    let (r, rest) ← parseUnary fuel ts
    if kindOf rest = k then bitwiseLoop fuel k op (.bin op e r) (rest.drop 1)
    else some (.bin op e r, rest)

def parseMult : Nat → List Tok → Option (Expr × List Tok)
  | 0, _ => none
  | fuel + 1, ts => do
    let (e, r) ← parseSingular fuel ts
    multLoop fuel e r

def multLoop : Nat → Expr → List Tok → Option (Expr × List Tok)
  | 0, _, _ => none
  | fuel + 1, e, ts =>
    match kindOf ts with
    | .Times => do
      let (r, rest) ← parseSingular fuel (ts.drop 1)
      multLoop fuel (.bin .Multiply e r) rest
    | .Divide => do
      let (r, rest) ← parseSingular fuel (ts.drop 1)
      multLoop fuel (.bin .Divide e r) rest
    | .Modulo => do
      let (r, rest) ← parseSingular fuel (ts.drop 1)
      multLoop fuel (.bin .Modulo e r) rest
    | _ => some (e, ts)

def parseSingular : Nat → List Tok → Option (Expr × List Tok)
  | 0, _ => none
  | fuel + 1, ts =>
    if kindOf ts = .Cast then do
      let (e, r) ← parseUnary fuel (ts.drop 1)
      asLoop fuel (.bitcast e) r
    else do
      let (e, r) ← parseUnary fuel ts
      asLoop fuel e r

def asLoop : Nat → Expr → List Tok → Option (Expr × List Tok)
  | 0, _, _ => none
  | fuel + 1, e, ts =>
    if kindOf ts = .As then do
      let (t, r) ← parseType fuel (ts.drop 1)
      asLoop fuel (.typecast e t) r
    else some (e, ts)

def parseUnary : Nat → List Tok → Option (Expr × List Tok)
  | 0, _ => none
  | fuel + 1, ts =>
    match kindOf ts with
    | .PipeForType => do
      let (t, r) ← parseType fuel (ts.drop 1)
      let (_, r) ← eat .Pipe r
      some (.sizeOf t, r)
    | .Pipe => do
      let (d, r) ← eatAmps 127 (ts.drop 1)
      let (id, r) ← eat .Identifier r
      let (st, r) ← parseSteps fuel 128 r
      let (_, r) ← eat .Pipe r
      some (.lengthOf d id.text st, r)
    | .Exclamation => do
      let (e, r) ← parsePrimary fuel (ts.drop 1)
      some (.un .BitwiseComplement e, r)
    | .Minus => do
      let (e, r) ← parsePrimary fuel (ts.drop 1)
      some (.un .Negative e, r)
    | _ => parsePrimary fuel ts

def parsePrimary : Nat → List Tok → Option (Expr × List Tok)
  | 0, _ => none
  | _, [] => none
  | fuel + 1, t :: ts =>
    match t.kind with
    | .NakedDecimal => some (.int .naked t.val, ts)
    | .BitInteger => some (.int .bit t.val, ts)
    | .SuffixedInteger => some (.int (.suffixed t.vt) t.val, ts)
    | .CharLiteral => some (.int .char t.val, ts)
    | .BoolLiteral => some (.bool t.val, ts)
    | .StringLiteral =>
      let (more, r) := eatStrings ts
      some (.str (t.text :: more), r)
    | .Ampersand => do
      let (d, r) ← eatAmps 126 ts
      let (id, r) ← eat .Identifier r
      let (st, r) ← parseSteps fuel 128 r
      if kindOf r = .Dots then do
        let (off, r) ← parseExpr fuel (r.drop 1)
        some (.bin .AdvancePointer (.deref (d + 1) id.text st) off, r)
      else some (.deref (d + 1) id.text st, r)
    | .Identifier =>
      match kindOf ts with
      | .ParenLeft => do
        let (args, r) ← parseArgs fuel .ParenRight (ts.drop 1)
        some (.call t.text false args, r)
      | .BraceLeft => do
        let (fs, r) ← parseFields fuel (ts.drop 1)
        some (.structural t.text fs, r)
      | _ => do
        let (st, r) ← parseSteps fuel 128 ts
        some (.deref 0 t.text st, r)
    | .Builtin => do
      let (_, r) ← eat .ParenLeft ts
      let (args, r) ← parseArgs fuel .ParenRight r
      some (.call t.text true args, r)
    | .BracketLeft => do
      let (es, r) ← parseArgs fuel .BracketRight ts
      some (.array es, r)
    | .ParenLeft => do
      let (e, r) ← parseExpr fuel ts
      let (_, r) ← eat .ParenRight r
      some (.paren e, r)
    | _ => none

/-- `parse_rest_of_arguments` and the element loop of an array literal: items up to `close` -/
def parseArgs : Nat → Kind → List Tok → Option (Exprs × List Tok)
  | 0, _, _ => none
  | fuel + 1, close, ts =>
    if kindOf ts = close then some (.nil, ts.drop 1)
    else do
      let (e, r) ← parseExpr fuel ts
      if kindOf r = .Comma then do
        let (es, r) ← parseArgs fuel close (r.drop 1)
        some (.cons e es, r)
      else do
        let (_, r) ← eat close r
        some (.cons e .nil, r)

/-- `parse_rest_of_structural` -/
def parseFields : Nat → List Tok → Option (Fields × List Tok)
  | 0, _ => none
  | fuel + 1, ts =>
    if kindOf ts = .BraceRight then some (.nil, ts.drop 1)
    else do
      let (id, r) ← eat .Identifier ts
      let (e, r) ← (if kindOf r = .Colon then parseExpr fuel (r.drop 1)
                    else some (.deref 0 id.text .nil, r))
      if kindOf r = .Comma then do
        let (fs, r) ← parseFields fuel (r.drop 1)
        some (.cons id.text e fs, r)
      else do
        let (_, r) ← eat .BraceRight r
        some (.cons id.text e .nil, r)

/-- `parse_deref_steps_list`; `budget` = iterations of its loop still allowed (`0..=MAX_REFERENCE_DEPTH`: 127 steps and the look at what follows them) -/
def parseSteps : Nat → Nat → List Tok → Option (Steps × List Tok)
  | 0, _, _ => none
  | _, 0, _ => none
  | fuel + 1, budget + 1, ts =>
    match kindOf ts with
    | .BracketLeft => do
      let (e, r) ← parseExpr fuel (ts.drop 1)
      let (_, r) ← eat .BracketRight r
      let (st, r) ← parseSteps fuel budget r
      some (.elem e st, r)
    | .Dot => do
      let (id, r) ← eat .Identifier (ts.drop 1)
      let (st, r) ← parseSteps fuel budget r
      some (.member id.text st, r)
    | _ => some (.nil, ts)
end

def reservedForIf (t : Tok) : Bool := t.kind == .BraceLeft || t.kind == .Semicolon || t.kind == .EndOfSource

/-- `parse_comparison` under `with_reservation`: only the tokens before the first `{` or `;` are visible -/
def parseCmp (fuel : Nat) (ts : List Tok) : Option ((CmpOp × Expr × Expr) × List Tok) :=
  let pre := ts.takeWhile (fun t => !reservedForIf t)
  let post := ts.drop pre.length
  match parseExpr fuel pre with
  | none => none
  | some (l, r) =>
    match r with
    | [] => none
    | o :: r =>
      match cmpOpOf o.kind with
      | none => none
      | some op =>
        match parseExpr fuel r with
        | none => none
        | some (rhs, rest) => some ((op, l, rhs), rest ++ post)

/-- the rest of an assignment after its reference -/
def parseAssignRest (fuel : Nat) (d : Nat) (name : String) (st : Steps) (ts : List Tok) : Option (Stmt × List Tok) := do
  let (_, r) ← eat .Assignment ts
  let (e, r) ← parseExpr fuel r
  let (_, r) ← eat .Semicolon r
  some (.assign d name st e, r)

mutual
def parseStmt : Nat → List Tok → Option (Stmt × List Tok)
  | 0, _ => none
  | _, [] => none
  | fuel + 1, t :: ts =>
    match t.kind with
    | .BraceLeft => do
      let (ss, r) ← parseBlock fuel ts
      some (.block ss, r)
    | .If => do
      let ((op, l, rhs), r) ← parseCmp fuel ts
      let (th, r) ← parseStmt fuel r
      if kindOf r = .Else then do
        let (el, r) ← parseStmt fuel (r.drop 1)
        some (.ifElse op l rhs th el, r)
      else some (.ifThen op l rhs th, r)
    | .Loop => do
      let (_, r) ← eat .Semicolon ts
      some (.loop, r)
    | .Goto =>
      match ts with
      | [] => none
      | l :: r =>
        if l.kind = .Return ∨ l.kind = .Identifier then do
          let (_, r) ← eat .Semicolon r
          some (.goto l.text, r)
        else none
    | .Var => do
      let (id, r) ← eat .Identifier ts
      let (ty, r) ← (if kindOf r = .Colon then do
                        let (t, r) ← parseType fuel (r.drop 1)
                        some (some t, r)
                      else some (none, r))
      let (val, r) ← (if kindOf r = .Assignment then do
                        let (e, r) ← parseExpr fuel (r.drop 1)
                        some (some e, r)
                      else some (none, r))
      let (_, r) ← eat .Semicolon r
      some (.var id.text ty val, r)
    | .Identifier =>
      match kindOf ts with
      | .Colon => some (.label t.text, ts.drop 1)
      | .ParenLeft => do
        let (args, r) ← parseArgs fuel .ParenRight (ts.drop 1)
        let (_, r) ← eat .Semicolon r
        some (.mcall t.text false args, r)
      | _ => do
        let (st, r) ← parseSteps fuel 128 ts
        parseAssignRest fuel 0 t.text st r
    | .Builtin => do
      let (_, r) ← eat .ParenLeft ts
      let (args, r) ← parseArgs fuel .ParenRight r
      let (_, r) ← eat .Semicolon r
      some (.mcall t.text true args, r)
    | .Ampersand => do
      let (d, r) ← eatAmps 126 ts
      let (id, r) ← eat .Identifier r
      let (st, r) ← parseSteps fuel 128 r
      parseAssignRest fuel (d + 1) id.text st r
    | _ => none

/-- `parse_rest_of_block` -/
def parseBlock : Nat → List Tok → Option (Stmts × List Tok)
  | 0, _ => none
  | fuel + 1, ts =>
    if kindOf ts = .BraceRight then some (.nil, ts.drop 1)
    else do
      let (s, r) ← parseStmt fuel ts
      let (ss, r) ← parseBlock fuel r
      some (.cons s ss, r)
end

/-- `parse_function_body` after the opening brace: statements, then `}` or `return: value`
    (the closing brace after a return value is left to the declaration loop, as in the source) -/
def parseBody : Nat → List Tok → Option ((Stmts × Option Expr) × List Tok)
  | 0, _ => none
  | fuel + 1, ts =>
    match kindOf ts with
    | .BraceRight => some ((.nil, none), ts.drop 1)
    | .Return => do
      let (_, r) ← eat .Colon (ts.drop 1)
      let (e, r) ← parseExpr fuel r
      some ((.nil, some e), r)
    | _ => do
      let (s, r) ← parseStmt fuel ts
      let ((ss, rv), r) ← parseBody fuel r
      some ((.cons s ss, rv), r)

/-- parameters / members: `name: type` items up to `close`, comma separated, trailing comma allowed -/
def parseTyped : Nat → Kind → List Tok → Option ((List (String × Ty)) × List Tok)
  | 0, _, _ => none
  | fuel + 1, close, ts =>
    if kindOf ts = close then some ([], ts.drop 1)
    else do
      let (id, r) ← eat .Identifier ts
      let (_, r) ← eat .Colon r
      let (t, r) ← parseType fuel r
      if kindOf r = .Comma then do
        let (ps, r) ← parseTyped fuel close (r.drop 1)
        some ((id.text, t) :: ps, r)
      else do
        let (_, r) ← eat close r
        some ([(id.text, t)], r)

def wordSizeOf : Kind → Option Nat
  | .Word8 => some 1
  | .Word16 => some 2
  | .Word32 => some 4
  | .Word64 => some 8
  | .Word128 => some 16
  | _ => none

/-- `parse_declaration` -/
def parseDecl (fuel : Nat) (ts : List Tok) : Option (Decl × List Tok) :=
  let (pub, ts) := if kindOf ts = .Pub then (true, ts.drop 1) else (false, ts)
  let (ext, ts) := if kindOf ts = .Extern then (true, ts.drop 1) else (false, ts)
  let fl : Flags := { pub := pub, ext := ext }
  match ts with
  | [] => none
  | t :: ts =>
    match t.kind with
    | .Import => do
      let (s, r) ← eat .StringLiteral ts
      let (_, r) ← eat .Semicolon r
      some (.imp s.text, r)
    | .Const => do
      let (id, r) ← eat .Identifier ts
      let (_, r) ← eat .Colon r
      let (ty, r) ← parseType fuel r
      let (_, r) ← eat .Assignment r
      let (e, r) ← parseExpr fuel r
      let (_, r) ← eat .Semicolon r
      some (.const fl id.text ty e, r)
    | .Fn => do
      let (id, r) ← eat .Identifier ts
      let (_, r) ← eat .ParenLeft r
      let (params, r) ← parseTyped fuel .ParenRight r
      let (ret, r) ← (if kindOf r = .Arrow then parseType fuel (r.drop 1) else some (.simple "void", r))
      if kindOf r = .Semicolon then some (.fn fl id.text params ret none, r.drop 1)
      else do
        let (_, r) ← eat .BraceLeft r
        let (b, r) ← parseBody fuel r
        some (.fn fl id.text params ret (some b), r)
    | .Struct => do
      let (id, r) ← eat .Identifier ts
      if kindOf r = .Semicolon then some (.struct { fl with isOpaque := true } id.text none [], r.drop 1)
      else do
        let (_, r) ← eat .BraceLeft r
        let (ms, r) ← parseTyped fuel .BraceRight r
        some (.struct fl id.text none ms, r)
    | k =>
      match wordSizeOf k with
      | none => none
      | some size => do
        let (id, r) ← eat .Identifier ts
        let (_, r) ← eat .BraceLeft r
        let (ms, r) ← parseTyped fuel .BraceRight r
        some (.struct fl id.text (some size) ms, r)

def startsDecl (t : Tok) : Bool := Flat.startsDeclaration t.kind || t.kind == .EndOfSource

/-- `parser::parse` on a well-formed module: declarations until `EndOfSource`; between declarations the
    loop skips to the next declaration-starting token (`find_next`) -/
def parseModule : Nat → List Tok → Option (List Decl)
  | 0, _ => none
  | fuel + 1, ts =>
    if kindOf ts = .EndOfSource then some []
    else do
      let (d, r) ← parseDecl fuel ts
      let ds ← parseModule fuel (r.dropWhile (fun t => !startsDecl t))
      some (d :: ds)

def parseRef (ts : List Tok) : Option (List Decl) := parseModule (4 * ts.length + 16) ts

end Syn
