/-
  parse ∘ print = norm, for statements.
-/
import PenneModel.Syn.ExprRT

namespace Syn
open Flat (Kind)

def notReserved (t : Tok) : Bool := !reservedForIf t

theorem notReserved_tk (k : Kind) (h1 : k ≠ .BraceLeft) (h2 : k ≠ .Semicolon) (h3 : k ≠ .EndOfSource) :
    notReserved (tk k) = true := by
  simp [notReserved, reservedForIf, tk, h1, h2, h3]

theorem printTy_clean : ∀ t : Ty, (printTy t).all notReserved = true
  | .simple _ => by simp [printTy, notReserved, reservedForIf]
  | .named _ => by simp [printTy, notReserved, reservedForIf, tId]
  | .ptr t => by simp [printTy, notReserved, reservedForIf, tk, printTy_clean t]
  | .view t => by simp [printTy, notReserved, reservedForIf, tk, printTy_clean t]
  | .arraylike t => by simp [printTy, notReserved, reservedForIf, tk, printTy_clean t]
  | .slice t => by simp [printTy, notReserved, reservedForIf, tk, printTy_clean t]
  | .endless t => by simp [printTy, notReserved, reservedForIf, tk, printTy_clean t]
  | .array _ t => by simp [printTy, notReserved, reservedForIf, tk, printTy_clean t]
  | .arrayNamed _ t => by simp [printTy, notReserved, reservedForIf, tk, tId, printTy_clean t]

theorem amps_clean : ∀ n, (amps n).all notReserved = true
  | 0 => rfl
  | n + 1 => by simp [amps, notReserved, reservedForIf, tk, amps_clean n]

mutual
theorem printExpr_clean : ∀ e : Expr, e.noStruct = true → (printExpr e).all notReserved = true
  | .int k v, _ => by simp [printExpr, printInt, notReserved, reservedForIf]; split <;> simp
  | .bool _, _ => by simp [printExpr, notReserved, reservedForIf]
  | .str _, _ => by simp [printExpr, notReserved, reservedForIf]
  | .array es, h => by
    simp only [Expr.noStruct] at h
    simp [printExpr, notReserved, reservedForIf, tk, printElems_clean es h]
  | .structural _ _, h => by simp [Expr.noStruct] at h
  | .paren e, h => by
    simp only [Expr.noStruct] at h
    simp [printExpr, notReserved, reservedForIf, tk, printExpr_clean e h]
  | .deref d _ st, h => by
    simp only [Expr.noStruct] at h
    simp [printExpr, notReserved, reservedForIf, tId, amps_clean d, printSteps_clean st h]
  | .call _ b args, h => by
    simp only [Expr.noStruct] at h
    cases b <;> simp [printExpr, notReserved, reservedForIf, tk, printArgs_clean args h]
  | .bin op l r, h => by
    simp only [Expr.noStruct, Bool.and_eq_true] at h
    have := printExpr_clean l h.1
    have := printExpr_clean r h.2
    cases op <;> simp_all [printExpr, notReserved, reservedForIf, tk, binTok]
  | .un op e, h => by
    simp only [Expr.noStruct] at h
    have := printExpr_clean e h
    cases op <;> simp_all [printExpr, notReserved, reservedForIf, tk, unTok]
  | .bitcast e, h => by
    simp only [Expr.noStruct] at h
    simp [printExpr, notReserved, reservedForIf, tk, printExpr_clean e h]
  | .typecast e t, h => by
    simp only [Expr.noStruct] at h
    simp [printExpr, notReserved, reservedForIf, tk, printExpr_clean e h, printTy_clean t]
  | .lengthOf d _ st, h => by
    simp only [Expr.noStruct] at h
    simp [printExpr, notReserved, reservedForIf, tk, tId, amps_clean d, printSteps_clean st h]
  | .sizeOf t, _ => by simp [printExpr, notReserved, reservedForIf, tk, printTy_clean t]
theorem printElems_clean : ∀ es : Exprs, es.noStruct = true → (printElems es).all notReserved = true
  | .nil, _ => rfl
  | .cons e es, h => by
    simp only [Exprs.noStruct, Bool.and_eq_true] at h
    simp [printElems, notReserved, reservedForIf, tk, printExpr_clean e h.1, printElems_clean es h.2]
theorem printArgs_clean : ∀ es : Exprs, es.noStruct = true → (printArgs es).all notReserved = true
  | .nil, _ => rfl
  | .cons e .nil, h => by
    simp only [Exprs.noStruct, Bool.and_eq_true] at h
    simp [printArgs, printExpr_clean e h.1]
  | .cons e (.cons e2 es), h => by
    simp only [Exprs.noStruct, Bool.and_eq_true] at h
    have := printArgs_clean (.cons e2 es) (by simp [Exprs.noStruct, h.2])
    simp [printArgs, notReserved, reservedForIf, tk, printExpr_clean e h.1, this]
theorem printSteps_clean : ∀ st : Steps, st.noStruct = true → (printSteps st).all notReserved = true
  | .nil, _ => rfl
  | .member _ rest, h => by
    simp only [Steps.noStruct] at h
    simp [printSteps, notReserved, reservedForIf, tk, tId, printSteps_clean rest h]
  | .elem e rest, h => by
    simp only [Steps.noStruct, Bool.and_eq_true] at h
    simp [printSteps, notReserved, reservedForIf, tk, printExpr_clean e h.1, printSteps_clean rest h.2]
end

/-! ### the condition of an `if`: parsed on the tokens before the first `{` or `;` -/

theorem takeWhile_append_clean (p : Tok → Bool) : ∀ (A S : List Tok), A.all p = true →
    (A ++ S).takeWhile p = A ++ S.takeWhile p
  | [], S, _ => rfl
  | a :: A, S, h => by
    simp only [List.all_cons, Bool.and_eq_true] at h
    simp [List.takeWhile, h.1, takeWhile_append_clean p A S h.2]

theorem takeWhile_drop (p : Tok → Bool) : ∀ S : List Tok, S.takeWhile p ++ S.drop (S.takeWhile p).length = S
  | [] => rfl
  | a :: S => by
    by_cases h : p a = true
    · simp [List.takeWhile, h, takeWhile_drop p S]
    · simp [List.takeWhile, h]

theorem cmpOpOf_cmpTok (op : CmpOp) : cmpOpOf (cmpTok op) = some op := by cases op <;> rfl

theorem stopA_cmpTok (op : CmpOp) (ts : List Tok) : stopA (tk (cmpTok op) :: ts) = true := by
  cases op <;> simp [stopA, stopM, stopS, stopP, glue, tk, cmpTok]

theorem parseCmp_print (op : CmpOp) (l r : Expr) (S : List Tok) (f : Nat)
    (hl : l.lvl.isSome = true) (hr : r.lvl.isSome = true) (hnl : l.noStruct = true) (hnr : r.noStruct = true)
    (hf : l.need + r.need + 4 ≤ f) (hS : stopA (S.takeWhile notReserved) = true) :
    parseCmp f (printExpr l ++ tk (cmpTok op) :: printExpr r ++ S) = some ((op, l.norm, r.norm), S) := by
  have hclean : (printExpr l ++ tk (cmpTok op) :: printExpr r).all notReserved = true := by
    have h1 := printExpr_clean l hnl
    have h2 := printExpr_clean r hnr
    have h3 : notReserved (tk (cmpTok op)) = true := by cases op <;> simp [notReserved, reservedForIf, tk, cmpTok]
    simp [h1, h2, h3]
  have hfun : (fun t => !reservedForIf t) = notReserved := rfl
  have hpre : (printExpr l ++ tk (cmpTok op) :: printExpr r ++ S).takeWhile (fun t => !reservedForIf t) =
      (printExpr l ++ tk (cmpTok op) :: printExpr r) ++ S.takeWhile notReserved := by
    rw [hfun]
    have := takeWhile_append_clean notReserved (printExpr l ++ tk (cmpTok op) :: printExpr r) S hclean
    simpa [List.append_assoc] using this
  unfold parseCmp
  simp only [hpre]
  have hlen : ((printExpr l ++ tk (cmpTok op) :: printExpr r) ++ S.takeWhile notReserved).length =
      (printExpr l ++ tk (cmpTok op) :: printExpr r).length + (S.takeWhile notReserved).length := by
    simp only [List.length_append]
  have hdrop : (printExpr l ++ tk (cmpTok op) :: printExpr r ++ S).drop
      ((printExpr l ++ tk (cmpTok op) :: printExpr r) ++ S.takeWhile notReserved).length =
      S.drop (S.takeWhile notReserved).length := by
    rw [hlen]
    have : printExpr l ++ tk (cmpTok op) :: printExpr r ++ S = (printExpr l ++ tk (cmpTok op) :: printExpr r) ++ S := by
      simp [List.append_assoc]
    rw [this, List.drop_append]
    simp
  rw [hdrop]
  have hpl := size_pos l
  have hpr := size_pos r
  have h1 := parse_print_expr l hl (tk (cmpTok op) :: (printExpr r ++ S.takeWhile notReserved)) (stopA_cmpTok op _) f
    (by simp only [Expr.need] at *; omega)
  have h2 := parse_print_expr r hr (S.takeWhile notReserved) hS f (by simp only [Expr.need] at *; omega)
  have hassoc : (printExpr l ++ tk (cmpTok op) :: printExpr r) ++ S.takeWhile notReserved =
      printExpr l ++ tk (cmpTok op) :: (printExpr r ++ S.takeWhile notReserved) := by simp [List.append_assoc]
  rw [hassoc, h1]
  simp only [tk, cmpOpOf_cmpTok]
  rw [h2]
  simp only []
  rw [takeWhile_drop]

/-! ### statements -/

def StmtC (s : Stmt) : Prop :=
  ∀ f rest, s.need ≤ f → (s.isOpen = true → kindOf rest ≠ .Else) →
    parseStmt f (printStmt s ++ rest) = some (s.norm, rest)

def StmtsC (ss : Stmts) : Prop :=
  ∀ f rest, ss.need ≤ f → parseBlock f (printStmts ss ++ tk .BraceRight :: rest) = some (ss.norm, rest)

theorem stopA_takeWhile_cons (t : Tok) (S : List Tok) (h : reservedForIf t = true ∨ stopA [t] = true) :
    stopA ((t :: S).takeWhile notReserved) = true := by
  by_cases hr : reservedForIf t = true
  · simp [List.takeWhile, notReserved, hr, stopA, stopM, stopS, stopP, glue]
  · have hs : stopA [t] = true := by rcases h with h | h; exact absurd h hr; exact h
    simp only [List.takeWhile, notReserved, hr, Bool.not_false]
    simpa [stopA, stopM, stopS, stopP] using hs

theorem stmts_size_pos (ss : Stmts) : 1 ≤ ss.size := by cases ss <;> simp [Stmts.size] <;> omega
theorem stmt_size_pos (s : Stmt) : 1 ≤ s.size := by cases s <;> simp [Stmt.size] <;> omega

/-- the first token of a printed statement, and that it cannot continue an `if` condition -/
theorem printStmt_head (s : Stmt) (h : s.startsAmp = false) :
    ∃ t ts, printStmt s = t :: ts ∧ (reservedForIf t = true ∨ stopA [t] = true) ∧ t.kind ≠ .BraceRight ∧ t.kind ≠ .Else := by
  cases s with
  | var name ty val => exact ⟨_, _, rfl, Or.inr (by simp [stopA, stopM, stopS, stopP, glue, tk]), by simp [tk], by simp [tk]⟩
  | assign d name st e =>
    have hd : d = 0 := by simpa [Stmt.startsAmp] using h
    subst hd
    exact ⟨tId name, printSteps st ++ tk .Assignment :: (printExpr e ++ [tk .Semicolon]), by simp [printStmt, amps],
      Or.inr (by simp [stopA, stopM, stopS, stopP, glue, tId]), by simp [tId], by simp [tId]⟩
  | mcall name b args =>
    refine ⟨_, _, rfl, Or.inr ?_, ?_, ?_⟩ <;> cases b <;> simp [stopA, stopM, stopS, stopP, glue]
  | loop => exact ⟨_, _, rfl, Or.inr (by simp [stopA, stopM, stopS, stopP, glue, tk]), by simp [tk], by simp [tk]⟩
  | goto l => exact ⟨_, _, rfl, Or.inr (by simp [stopA, stopM, stopS, stopP, glue, tk]), by simp [tk], by simp [tk]⟩
  | label l => exact ⟨_, _, rfl, Or.inr (by simp [stopA, stopM, stopS, stopP, glue, tId]), by simp [tId], by simp [tId]⟩
  | ifThen op l r th => exact ⟨_, _, rfl, Or.inr (by simp [stopA, stopM, stopS, stopP, glue, tk]), by simp [tk], by simp [tk]⟩
  | ifElse op l r th el => exact ⟨_, _, rfl, Or.inr (by simp [stopA, stopM, stopS, stopP, glue, tk]), by simp [tk], by simp [tk]⟩
  | block ss => exact ⟨_, _, rfl, Or.inl (by simp [reservedForIf, tk]), by simp [tk], by simp [tk]⟩

/-- every printed statement starts with a token other than `}` -/
theorem printStmt_head_any (s : Stmt) : ∃ t ts, printStmt s = t :: ts ∧ t.kind ≠ .BraceRight ∧ t.kind ≠ .Else := by
  by_cases h : s.startsAmp = false
  · obtain ⟨t, ts, h1, _, h3, h4⟩ := printStmt_head s h
    exact ⟨t, ts, h1, h3, h4⟩
  · cases s with
    | assign d name st e =>
      have hd : 0 < d := by
        have : ¬ d = 0 := by simpa [Stmt.startsAmp] using h
        omega
      obtain ⟨d', rfl⟩ : ∃ d', d = d' + 1 := ⟨d - 1, by omega⟩
      exact ⟨tk .Ampersand, amps d' ++ tId name :: (printSteps st ++ tk .Assignment :: (printExpr e ++ [tk .Semicolon])),
        by simp [printStmt, amps], by simp [tk], by simp [tk]⟩
    | _ => simp [Stmt.startsAmp] at h

theorem kindOf_stmts_ne_else (ss : Stmts) (rest : List Tok) :
    kindOf (printStmts ss ++ tk .BraceRight :: rest) ≠ .Else := by
  cases ss with
  | nil => simp [printStmts, tk]
  | cons s ss' =>
    obtain ⟨t, ts, h1, _, h3⟩ := printStmt_head_any s
    simp [printStmts, h1, h3]

theorem optSize_le (val : Option Expr) (e : Expr) (h : val = some e) : e.size = optSize val := by subst h; rfl

mutual
theorem stmt_rt : ∀ s : Stmt, s.ok = true → StmtC s
  | .loop, _ => by
    intro f rest hf _
    simp only [Stmt.need, Stmt.size] at hf
    obtain ⟨f', rfl⟩ : ∃ f', f = f' + 1 := ⟨f - 1, by omega⟩
    simp only [printStmt, tk, List.cons_append, List.nil_append]
    rw [parseStmt.eq_def]
    simp [eat, Stmt.norm]
  | .goto l, _ => by
    intro f rest hf _
    simp only [Stmt.need, Stmt.size] at hf
    obtain ⟨f', rfl⟩ : ∃ f', f = f' + 1 := ⟨f - 1, by omega⟩
    simp only [printStmt, tk, List.cons_append, List.nil_append]
    rw [parseStmt.eq_def]
    by_cases hl : (l == "return") = true
    · simp [hl, eat, Stmt.norm]
    · simp [hl, tId, eat, Stmt.norm]
  | .label l, _ => by
    intro f rest hf _
    simp only [Stmt.need, Stmt.size] at hf
    obtain ⟨f', rfl⟩ : ∃ f', f = f' + 1 := ⟨f - 1, by omega⟩
    simp only [printStmt, tk, tId, List.cons_append, List.nil_append]
    rw [parseStmt.eq_def]
    simp [Stmt.norm]
  | .mcall name b args, hok => by
    intro f rest hf _
    simp only [Stmt.ok] at hok
    simp only [Stmt.need, Stmt.size] at hf
    obtain ⟨f', rfl⟩ : ∃ f', f = f' + 1 := ⟨f - 1, by omega⟩
    have ha := parse_print_args args hok (tk .Semicolon :: rest) f' (by simp only [Exprs.need]; omega)
    simp only [tk] at ha
    cases b with
    | false =>
      simp only [printStmt, tk, List.cons_append, List.append_assoc, List.nil_append]
      rw [parseStmt.eq_def]
      simp [ha, eat, Stmt.norm]
    | true =>
      simp only [printStmt, tk, List.cons_append, List.append_assoc, List.nil_append]
      rw [parseStmt.eq_def]
      simp [ha, eat, Stmt.norm]
  | .var name ty val, hok => by
    intro f rest hf _
    simp only [Stmt.ok] at hok
    simp only [Stmt.need, Stmt.size] at hf
    obtain ⟨f', rfl⟩ : ∃ f', f = f' + 1 := ⟨f - 1, by omega⟩
    cases ty with
    | none =>
      cases val with
      | none =>
        simp only [printStmt, tk, tId, List.cons_append, List.append_assoc, List.nil_append]
        rw [parseStmt.eq_def]
        simp [eat, Stmt.norm, optNorm]
      | some e =>
        simp only [optOk] at hok
        simp only [optSize, optTySize] at hf
        have he := parse_print_expr e hok (tk .Semicolon :: rest) (by simp [stopA, stopM, stopS, stopP, glue, tk]) f'
          (by simp only [Expr.need]; omega)
        simp only [tk] at he
        simp only [printStmt, tk, tId, List.cons_append, List.append_assoc, List.nil_append]
        rw [parseStmt.eq_def]
        simp [eat, he, Stmt.norm, optNorm]
    | some t =>
      cases val with
      | none =>
        simp only [optSize, optTySize] at hf
        have ht := parse_print_ty t ({ kind := Kind.Semicolon } :: rest) f' (by omega)
        simp only [printStmt, tk, tId, List.cons_append, List.append_assoc, List.nil_append]
        rw [parseStmt.eq_def]
        simp [eat, parseType, ht, Stmt.norm, optNorm]
      | some e =>
        simp only [optOk] at hok
        simp only [optSize, optTySize] at hf
        have he := parse_print_expr e hok (tk .Semicolon :: rest) (by simp [stopA, stopM, stopS, stopP, glue, tk]) f'
          (by simp only [Expr.need]; omega)
        simp only [tk] at he
        have ht := parse_print_ty t ({ kind := Kind.Assignment } :: (printExpr e ++ { kind := Kind.Semicolon } :: rest)) f'
          (by omega)
        simp only [printStmt, tk, tId, List.cons_append, List.append_assoc, List.nil_append]
        rw [parseStmt.eq_def]
        simp [eat, parseType, ht, he, Stmt.norm, optNorm]
  | .assign d name st e, hok => by
    intro f rest hf _
    simp only [Stmt.ok, Bool.and_eq_true, decide_eq_true_eq] at hok
    obtain ⟨⟨⟨hst, hd⟩, hc⟩, he⟩ := hok
    simp only [Stmt.need, Stmt.size] at hf
    obtain ⟨f', rfl⟩ : ∃ f', f = f' + 1 := ⟨f - 1, by omega⟩
    have hps := steps_size_pos st
    have hpe := size_pos e
    have hexpr := parse_print_expr e he (tk .Semicolon :: rest) (by simp [stopA, stopM, stopS, stopP, glue, tk]) f'
      (by simp only [Expr.need]; omega)
    simp only [tk] at hexpr
    have hsteps := parse_print_steps st hst ({ kind := Kind.Assignment } :: (printExpr e ++ { kind := Kind.Semicolon } :: rest))
      f' 128 (by simp only [Steps.need]; omega) (by omega) (by simp) (by simp)
    cases d with
    | zero =>
      simp only [printStmt, amps, tk, tId, List.cons_append, List.append_assoc, List.nil_append]
      rw [parseStmt.eq_def]
      have hk : kindOf (printSteps st ++ { kind := Kind.Assignment } :: (printExpr e ++ { kind := Kind.Semicolon } :: rest))
          ≠ .Colon ∧
          kindOf (printSteps st ++ { kind := Kind.Assignment } :: (printExpr e ++ { kind := Kind.Semicolon } :: rest))
          ≠ .ParenLeft := by
        cases st <;> simp [printSteps, tk]
      simp only []
      split
      · rename_i h1; exact absurd h1 hk.1
      · rename_i h1; exact absurd h1 hk.2
      · simp [hsteps, parseAssignRest, eat, hexpr, Stmt.norm]
    | succ d' =>
      simp only [printStmt, amps, tk, List.cons_append, List.append_assoc, List.nil_append]
      rw [parseStmt.eq_def]
      have ha := eatAmps_amps d' 126 (tId name)
        (printSteps st ++ { kind := Kind.Assignment } :: (printExpr e ++ { kind := Kind.Semicolon } :: rest))
        (by omega) (by simp [tId])
      simp only []
      rw [ha]
      simp [eat, tId, hsteps, parseAssignRest, hexpr, Stmt.norm]
  | .block ss, hok => by
    intro f rest hf _
    simp only [Stmt.ok] at hok
    simp only [Stmt.need, Stmt.size] at hf
    obtain ⟨f', rfl⟩ : ∃ f', f = f' + 1 := ⟨f - 1, by omega⟩
    have hb := stmts_rt ss hok f' rest (by simp only [Stmts.need]; omega)
    simp only [tk] at hb
    simp only [printStmt, tk, List.cons_append, List.append_assoc, List.nil_append, List.singleton_append]
    rw [parseStmt.eq_def]
    simp [hb, Stmt.norm]
  | .ifThen op l r th, hok => by
    intro f rest hf hopen
    simp only [Stmt.ok, Bool.and_eq_true, Bool.not_eq_true'] at hok
    obtain ⟨⟨⟨⟨⟨hl, hr⟩, hnl⟩, hnr⟩, hth⟩, hamp⟩ := hok
    simp only [Stmt.need, Stmt.size] at hf
    obtain ⟨f', rfl⟩ : ∃ f', f = f' + 1 := ⟨f - 1, by omega⟩
    have hpl := size_pos l
    have hpr := size_pos r
    have hpt := stmt_size_pos th
    obtain ⟨t, ts, hhead, hstop, _, _⟩ := printStmt_head th hamp
    have hcmp := parseCmp_print op l r (printStmt th ++ rest) f' hl hr hnl hnr (by simp only [Expr.need]; omega)
      (by rw [hhead]; exact stopA_takeWhile_cons t _ hstop)
    have hne : kindOf rest ≠ .Else := hopen (by simp [Stmt.isOpen])
    have hthen := stmt_rt th hth f' rest (by simp only [Stmt.need]; omega) (fun _ => hne)
    simp only [printStmt, List.cons_append, List.append_assoc]
    rw [parseStmt.eq_def]
    simp only [tk]
    have hcmp' : parseCmp f' (printExpr l ++ { kind := cmpTok op } :: (printExpr r ++ (printStmt th ++ rest))) =
        some ((op, l.norm, r.norm), printStmt th ++ rest) := by
      simpa [tk, List.append_assoc] using hcmp
    rw [hcmp']
    simp [hthen, hne, Stmt.norm]
  | .ifElse op l r th el, hok => by
    intro f rest hf hopen
    simp only [Stmt.ok, Bool.and_eq_true, Bool.not_eq_true'] at hok
    obtain ⟨⟨⟨⟨⟨⟨⟨hl, hr⟩, hnl⟩, hnr⟩, hth⟩, hamp⟩, hclosed⟩, hel⟩ := hok
    simp only [Stmt.need, Stmt.size] at hf
    obtain ⟨f', rfl⟩ : ∃ f', f = f' + 1 := ⟨f - 1, by omega⟩
    have hpl := size_pos l
    have hpr := size_pos r
    have hpt := stmt_size_pos th
    have hpe := stmt_size_pos el
    obtain ⟨t, ts, hhead, hstop, _, _⟩ := printStmt_head th hamp
    have hcmp := parseCmp_print op l r (printStmt th ++ tk .Else :: (printStmt el ++ rest)) f' hl hr hnl hnr
      (by simp only [Expr.need]; omega) (by rw [hhead]; exact stopA_takeWhile_cons t _ hstop)
    have hthen := stmt_rt th hth f' (tk .Else :: (printStmt el ++ rest)) (by simp only [Stmt.need]; omega)
      (fun h => by rw [hclosed] at h; exact absurd h (by simp))
    have helse := stmt_rt el hel f' rest (by simp only [Stmt.need]; omega)
      (fun h => hopen (by simpa [Stmt.isOpen] using h))
    simp only [printStmt, List.cons_append, List.append_assoc]
    rw [parseStmt.eq_def]
    simp only [tk]
    have hcmp' : parseCmp f' (printExpr l ++ { kind := cmpTok op } ::
        (printExpr r ++ (printStmt th ++ { kind := Kind.Else } :: (printStmt el ++ rest)))) =
        some ((op, l.norm, r.norm), printStmt th ++ { kind := Kind.Else } :: (printStmt el ++ rest)) := by
      simpa [tk, List.append_assoc] using hcmp
    rw [hcmp']
    simp only [tk] at hthen
    simp [hthen, helse, Stmt.norm]
theorem stmts_rt : ∀ ss : Stmts, ss.ok = true → StmtsC ss
  | .nil, _ => by
    intro f rest hf
    simp only [Stmts.need, Stmts.size] at hf
    obtain ⟨f', rfl⟩ : ∃ f', f = f' + 1 := ⟨f - 1, by omega⟩
    simp only [printStmts, tk, List.nil_append]
    rw [parseBlock]
    simp [Stmts.norm]
  | .cons s ss, hok => by
    intro f rest hf
    simp only [Stmts.ok, Bool.and_eq_true] at hok
    simp only [Stmts.need, Stmts.size] at hf
    obtain ⟨f', rfl⟩ : ∃ f', f = f' + 1 := ⟨f - 1, by omega⟩
    have hps := stmt_size_pos s
    have hpss := stmts_size_pos ss
    obtain ⟨t, ts, hhead, hne, _⟩ := printStmt_head_any s
    have hs := stmt_rt s hok.1 f' (printStmts ss ++ tk .BraceRight :: rest) (by simp only [Stmt.need]; omega)
      (fun _ => kindOf_stmts_ne_else ss rest)
    have hss := stmts_rt ss hok.2 f' rest (by simp only [Stmts.need]; omega)
    simp only [printStmts, List.append_assoc]
    rw [parseBlock]
    have hk : kindOf (printStmt s ++ (printStmts ss ++ tk .BraceRight :: rest)) ≠ .BraceRight := by
      simp [hhead, hne]
    simp only [hk, if_false]
    rw [hs]
    simp [hss, Stmts.norm]
end

end Syn
