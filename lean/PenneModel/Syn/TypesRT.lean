/-
  C20 (and the parser half of C16) — printing a tree with the rebuilder's token-level printer and
  parsing the tokens again gives the tree back.

  `parse_print_ty`: every type, at any nesting depth, followed by any tokens.
-/
import PenneModel.Syn.Canon

namespace Syn
open Flat (Kind)

/-- **types round-trip**: whatever follows, and with any fuel above the nesting depth -/
theorem parse_print_ty (t : Ty) : ∀ (rest : List Tok) (fuel : Nat), t.depth ≤ fuel →
    parseInnerType fuel (printTy t ++ rest) = some (t, rest) := by
  induction t with
  | simple kw =>
    intro rest fuel h
    obtain ⟨f, rfl⟩ : ∃ f, fuel = f + 1 := ⟨fuel - 1, by simp [Ty.depth] at h; omega⟩
    simp [printTy, parseInnerType]
  | named id =>
    intro rest fuel h
    obtain ⟨f, rfl⟩ : ∃ f, fuel = f + 1 := ⟨fuel - 1, by simp [Ty.depth] at h; omega⟩
    simp [printTy, parseInnerType, tId]
  | ptr t ih =>
    intro rest fuel h
    obtain ⟨f, rfl⟩ : ∃ f, fuel = f + 1 := ⟨fuel - 1, by simp [Ty.depth] at h; omega⟩
    simp only [Ty.depth] at h
    simp [printTy, parseInnerType, tk, ih rest f (by omega)]
  | view t ih =>
    intro rest fuel h
    obtain ⟨f, rfl⟩ : ∃ f, fuel = f + 1 := ⟨fuel - 1, by simp [Ty.depth] at h; omega⟩
    simp only [Ty.depth] at h
    simp [printTy, parseInnerType, tk, List.append_assoc, ih _ f (by omega), eat]
  | arraylike t ih =>
    intro rest fuel h
    obtain ⟨f, rfl⟩ : ∃ f, fuel = f + 1 := ⟨fuel - 1, by simp [Ty.depth] at h; omega⟩
    simp only [Ty.depth] at h
    simp [printTy, parseInnerType, tk, ih rest f (by omega)]
  | slice t ih =>
    intro rest fuel h
    obtain ⟨f, rfl⟩ : ∃ f, fuel = f + 1 := ⟨fuel - 1, by simp [Ty.depth] at h; omega⟩
    simp only [Ty.depth] at h
    simp [printTy, parseInnerType, tk, eat, ih rest f (by omega)]
  | endless t ih =>
    intro rest fuel h
    obtain ⟨f, rfl⟩ : ∃ f, fuel = f + 1 := ⟨fuel - 1, by simp [Ty.depth] at h; omega⟩
    simp only [Ty.depth] at h
    simp [printTy, parseInnerType, tk, eat, ih rest f (by omega)]
  | array n t ih =>
    intro rest fuel h
    obtain ⟨f, rfl⟩ : ∃ f, fuel = f + 1 := ⟨fuel - 1, by simp [Ty.depth] at h; omega⟩
    simp only [Ty.depth] at h
    simp [printTy, parseInnerType, tk, eat, ih rest f (by omega)]
  | arrayNamed id t ih =>
    intro rest fuel h
    obtain ⟨f, rfl⟩ : ∃ f, fuel = f + 1 := ⟨fuel - 1, by simp [Ty.depth] at h; omega⟩
    simp only [Ty.depth] at h
    simp [printTy, parseInnerType, tk, tId, eat, ih rest f (by omega)]

end Syn
