/-
  C20 — rebuilt source parses back to the same tree (and the parser half of C16).

  The rebuilder is modelled at token level (`Syn.printExpr` …, one arm per node kind of
  src/alpha/rebuilder.rs), the parser by the reference parser `Syn.parseExpr` … (the grammar of
  src/delta/parser.rs / src/alpha/parser.rs).  For every expression tree the parser can produce
  (`lvl e ≠ none`; any size, any nesting), at every precedence level, followed by any tokens that
  cannot continue an expression:

      parse (print e ++ rest) = (norm e, rest)

  where `norm` only re-spells literals (a suffixed or character literal becomes a plain decimal or
  hexadecimal one, adjacent string pieces become one literal).  Hence the reparsed tree is the original
  up to the spelling and suffix of literals, and printing it again gives the same tokens
  (`print_norm`, `second_rebuild_identical`).

  partial: statements and declarations, and the pointer-advance operator `&x .. n`, are covered by the
  correspondence run of checks/c20.py and checks/c16.py only (`parse_print_module_partial` is not stated).
-/
import PenneModel.Syn.RoundTrip2

namespace Syn
open Flat (Kind)

/-- **expressions round-trip** at the top level: for every producible tree, any sufficient fuel, and any
    continuation that does not start with an operator or a token that would extend a primary -/
theorem parse_print_expr (e : Expr) (h : e.lvl.isSome = true) (rest : List Tok) (hstop : stopA rest = true)
    (fuel : Nat) (hf : e.need + 4 ≤ fuel) : parseExpr fuel (printExpr e ++ rest) = some (e.norm, rest) :=
  top_of_all (all_n e.size) e (Nat.le_refl _) h fuel rest hf hstop

/-- argument lists, array literals, reference steps and structure-literal fields round-trip -/
theorem parse_print_args (es : Exprs) (h : es.ok = true) (rest : List Tok) (fuel : Nat) (hf : es.need ≤ fuel) :
    parseArgs fuel .ParenRight (printArgs es ++ tk .ParenRight :: rest) = some (es.norm, rest) :=
  ((all_n es.size).2.1 es (Nat.le_refl _) h).1 fuel rest hf

theorem parse_print_elems (es : Exprs) (h : es.ok = true) (rest : List Tok) (fuel : Nat) (hf : es.need ≤ fuel) :
    parseArgs fuel .BracketRight (printElems es ++ tk .BracketRight :: rest) = some (es.norm, rest) :=
  ((all_n es.size).2.1 es (Nat.le_refl _) h).2 fuel rest hf

theorem parse_print_steps (st : Steps) (h : st.ok = true) (rest : List Tok) (fuel budget : Nat)
    (hf : st.need ≤ fuel) (hb : st.count < budget) (h1 : kindOf rest ≠ .BracketLeft) (h2 : kindOf rest ≠ .Dot) :
    parseSteps fuel budget (printSteps st ++ rest) = some (st.norm, rest) :=
  (all_n st.size).2.2.1 st (Nat.le_refl _) h fuel budget rest hf hb h1 h2

theorem parse_print_fields (fs : Fields) (h : fs.ok = true) (rest : List Tok) (fuel : Nat) (hf : fs.need ≤ fuel) :
    parseFields fuel (printFields fs ++ tk .BraceRight :: rest) = some (fs.norm, rest) :=
  (all_n fs.size).2.2.2 fs (Nat.le_refl _) h fuel rest hf

/-! ### a second trip changes nothing -/

theorem isSigned_normKind (k : IntKind) (v : Nat) : (normKind k v).isSigned v = k.isSigned v := by
  unfold normKind
  by_cases h : k.isSigned v = true
  · rw [if_pos h, h]
    cases k <;> simp_all [IntKind.isSigned]
  · rw [if_neg h]
    have : k.isSigned v = false := by simpa using h
    rw [this]
    rfl

mutual
theorem print_norm : ∀ e : Expr, printExpr e.norm = printExpr e
  | .int k v => by simp [Expr.norm, printExpr, printInt, isSigned_normKind]
  | .bool _ => rfl
  | .str parts => by simp [Expr.norm, printExpr, String.join]
  | .array es => by simp [Expr.norm, printExpr, printElems_norm es]
  | .structural _ fs => by simp [Expr.norm, printExpr, printFields_norm fs]
  | .paren e => by simp [Expr.norm, printExpr, print_norm e]
  | .deref _ _ st => by simp [Expr.norm, printExpr, printSteps_norm st]
  | .call _ _ args => by simp [Expr.norm, printExpr, printArgs_norm args]
  | .bin _ l r => by simp [Expr.norm, printExpr, print_norm l, print_norm r]
  | .un _ e => by simp [Expr.norm, printExpr, print_norm e]
  | .bitcast e => by simp [Expr.norm, printExpr, print_norm e]
  | .typecast e _ => by simp [Expr.norm, printExpr, print_norm e]
  | .lengthOf _ _ st => by simp [Expr.norm, printExpr, printSteps_norm st]
  | .sizeOf _ => rfl
theorem printElems_norm : ∀ es : Exprs, printElems es.norm = printElems es
  | .nil => rfl
  | .cons e es => by simp [Exprs.norm, printElems, print_norm e, printElems_norm es]
theorem printArgs_norm : ∀ es : Exprs, printArgs es.norm = printArgs es
  | .nil => rfl
  | .cons e .nil => by simp [Exprs.norm, printArgs, print_norm e]
  | .cons e (.cons e2 es) => by
    have := printArgs_norm (.cons e2 es)
    simp only [Exprs.norm] at this
    simp [Exprs.norm, printArgs, print_norm e, this]
theorem printSteps_norm : ∀ st : Steps, printSteps st.norm = printSteps st
  | .nil => rfl
  | .member _ rest => by simp [Steps.norm, printSteps, printSteps_norm rest]
  | .elem e rest => by simp [Steps.norm, printSteps, print_norm e, printSteps_norm rest]
theorem printFields_norm : ∀ fs : Fields, printFields fs.norm = printFields fs
  | .nil => rfl
  | .cons _ e rest => by simp [Fields.norm, printFields, print_norm e, printFields_norm rest]
end

/-- **the second rebuild is identical**: the tree obtained by parsing the printed tokens prints to the same tokens -/
theorem second_rebuild_identical (e : Expr) (h : e.lvl.isSome = true) (rest : List Tok) (hstop : stopA rest = true)
    (fuel : Nat) (hf : e.need + 4 ≤ fuel) :
    ∃ e', parseExpr fuel (printExpr e ++ rest) = some (e', rest) ∧ printExpr e' = printExpr e :=
  ⟨e.norm, parse_print_expr e h rest hstop fuel hf, print_norm e⟩

/-- the hypotheses are satisfiable by a non-trivial tree: `a + 2 * (-b[0x1]) & !c as u8 , ...` -/
example :
    (Expr.bin .BitwiseAnd
      (.bin .Add (.deref 0 "a" .nil)
        (.bin .Multiply (.int (.suffixed "i32") 2) (.paren (.un .Negative (.deref 0 "b" (.elem (.int .bit 1) .nil))))))
      (.un .BitwiseComplement (.deref 1 "c" .nil))).lvl = some 5 ∧ stopA [tk .Comma] = true := by
  decide

end Syn
