/-
  parse ∘ print = norm, for expressions: the induction.
-/
import PenneModel.Syn.RoundTrip
import PenneModel.Syn.TypesRT

namespace Syn
open Flat (Kind)

theorem exprs_size_pos (es : Exprs) : 1 ≤ es.size := by cases es <;> simp [Exprs.size] <;> omega
theorem steps_size_pos (st : Steps) : 1 ≤ st.size := by cases st <;> simp [Steps.size] <;> omega
theorem fields_size_pos (fs : Fields) : 1 ≤ fs.size := by cases fs <;> simp [Fields.size] <;> omega

theorem exprHead_ne {k : Kind} (h : exprHead k = true) :
    k ≠ .ParenRight ∧ k ≠ .BracketRight ∧ k ≠ .BraceRight ∧ k ≠ .Comma := by
  refine ⟨?_, ?_, ?_, ?_⟩ <;> (intro hk; subst hk; simp [exprHead, unaryHead, primHead] at h)

/-- the top-level claim for a sub-expression, from the induction hypothesis -/
theorem top_of_all {n : Nat} (ih : All n) (e : Expr) (hs : e.size ≤ n) (hl : e.lvl.isSome = true) : TopC e := by
  obtain ⟨l, hl'⟩ := Option.isSome_iff_exists.mp hl
  exact (ih.1 e hs l hl').2.2.2.2.2.2.2.2

theorem args_step {n : Nat} (ih : All n) (es : Exprs) (hs : es.size ≤ n + 1) (hok : es.ok = true) : ArgsC es := by
  intro f rest hf
  have hpos := exprs_size_pos es
  simp only [Exprs.need] at hf
  obtain ⟨f', rfl⟩ : ∃ f', f = f' + 1 := ⟨f - 1, by omega⟩
  cases es with
  | nil => rw [parseArgs]; simp [printArgs, tk, Exprs.norm]
  | cons e es' =>
    simp only [Exprs.size] at hs hf
    simp only [Exprs.ok, Bool.and_eq_true] at hok
    have hpos' := exprs_size_pos es'
    have hpe := size_pos e
    have htop := top_of_all ih e (by omega) hok.1
    have hhead := exprHead_ne (head_expr e hok.1)
    cases es' with
    | nil =>
      rw [parseArgs]
      simp only [printArgs, kindOf_print, hhead.1, if_false]
      rw [htop f' (tk .ParenRight :: rest) (by simp only [Expr.need]; omega) (by simp [stopA, stopM, stopS, stopP, glue, tk])]
      simp [tk, eat, Exprs.norm]
    | cons e2 es'' =>
      have hrec := (ih.2.1 (.cons e2 es'') (by omega) hok.2).1
      rw [parseArgs]
      simp only [printArgs, List.append_assoc, kindOf_print, hhead.1, if_false, List.cons_append]
      rw [htop f' _ (by simp only [Expr.need]; omega) (by simp [stopA, stopM, stopS, stopP, glue, tk])]
      simp only [Option.bind_eq_bind, Option.bind_some, kindOf_cons, tk, if_true, List.drop_one, List.tail_cons]
      have := hrec f' rest (by simp only [Exprs.need, Exprs.size] at *; omega)
      simp only [tk] at this
      rw [this]
      simp [Exprs.norm]

theorem elems_step {n : Nat} (ih : All n) (es : Exprs) (hs : es.size ≤ n + 1) (hok : es.ok = true) : ElemsC es := by
  intro f rest hf
  have hpos := exprs_size_pos es
  simp only [Exprs.need] at hf
  obtain ⟨f', rfl⟩ : ∃ f', f = f' + 1 := ⟨f - 1, by omega⟩
  cases es with
  | nil => rw [parseArgs]; simp [printElems, tk, Exprs.norm]
  | cons e es' =>
    simp only [Exprs.size] at hs hf
    simp only [Exprs.ok, Bool.and_eq_true] at hok
    have hpos' := exprs_size_pos es'
    have hpe := size_pos e
    have htop := top_of_all ih e (by omega) hok.1
    have hhead := exprHead_ne (head_expr e hok.1)
    have hrec := (ih.2.1 es' (by omega) hok.2).2
    rw [parseArgs]
    simp only [printElems, List.append_assoc, kindOf_print, hhead.2.1, if_false, List.cons_append]
    rw [htop f' _ (by simp only [Expr.need]; omega) (by simp [stopA, stopM, stopS, stopP, glue, tk])]
    simp only [Option.bind_eq_bind, Option.bind_some, kindOf_cons, tk, if_true, List.drop_one, List.tail_cons]
    have := hrec f' rest (by simp only [Exprs.need] at *; omega)
    simp only [tk] at this
    rw [this]
    simp [Exprs.norm]

theorem steps_step {n : Nat} (ih : All n) (st : Steps) (hs : st.size ≤ n + 1) (hok : st.ok = true) : StepsC st := by
  intro f budget rest hf hb hk1 hk2
  have hpos := steps_size_pos st
  simp only [Steps.need] at hf
  obtain ⟨f', rfl⟩ : ∃ f', f = f' + 1 := ⟨f - 1, by omega⟩
  obtain ⟨b', rfl⟩ : ∃ b', budget = b' + 1 := ⟨budget - 1, by omega⟩
  cases st with
  | nil =>
    rw [parseSteps]
    simp only [printSteps, List.nil_append]
    simp [Steps.norm]
  | member id st' =>
    simp only [Steps.size] at hs hf
    simp only [Steps.ok] at hok
    simp only [Steps.count] at hb
    have hrec := ih.2.2.1 st' (by omega) hok
    rw [parseSteps]
    simp only [printSteps, List.cons_append, kindOf_cons, tk, List.drop_one, List.tail_cons, tId, eat, if_true,
      Option.bind_eq_bind, Option.bind_some]
    rw [hrec f' b' rest (by simp only [Steps.need]; omega) (by omega) hk1 hk2]
    simp [Steps.norm]
  | elem e st' =>
    simp only [Steps.size] at hs hf
    simp only [Steps.ok, Bool.and_eq_true] at hok
    simp only [Steps.count] at hb
    have hpe := size_pos e
    have hps := steps_size_pos st'
    have htop := top_of_all ih e (by omega) hok.1
    have hrec := ih.2.2.1 st' (by omega) hok.2
    rw [parseSteps]
    simp only [printSteps, List.cons_append, List.append_assoc, kindOf_cons, tk, List.drop_one, List.tail_cons]
    rw [htop f' _ (by simp only [Expr.need]; omega) (by simp [stopA, stopM, stopS, stopP, glue])]
    simp only [Option.bind_eq_bind, Option.bind_some, eat, if_true]
    rw [hrec f' b' rest (by simp only [Steps.need]; omega) (by omega) hk1 hk2]
    simp [Steps.norm]

theorem fields_step {n : Nat} (ih : All n) (fs : Fields) (hs : fs.size ≤ n + 1) (hok : fs.ok = true) : FieldsC fs := by
  intro f rest hf
  have hpos := fields_size_pos fs
  simp only [Fields.need] at hf
  obtain ⟨f', rfl⟩ : ∃ f', f = f' + 1 := ⟨f - 1, by omega⟩
  cases fs with
  | nil => rw [parseFields]; simp [printFields, tk, Fields.norm]
  | cons name e fs' =>
    simp only [Fields.size] at hs hf
    simp only [Fields.ok, Bool.and_eq_true] at hok
    have hpe := size_pos e
    have hpf := fields_size_pos fs'
    have htop := top_of_all ih e (by omega) hok.1
    have hrec := ih.2.2.2 fs' (by omega) hok.2
    rw [parseFields]
    simp only [printFields, List.cons_append, List.append_assoc, kindOf_cons, tk, tId, eat, if_true,
      Option.bind_eq_bind, Option.bind_some, List.drop_one, List.tail_cons]
    simp only [show (Kind.Identifier = Kind.BraceRight) = False by simp, if_false]
    rw [htop f' _ (by simp only [Expr.need]; omega) (by simp [stopA, stopM, stopS, stopP, glue])]
    simp only [Option.bind_some, kindOf_cons, if_true, List.drop_one, List.tail_cons]
    have := hrec f' rest (by simp only [Fields.need]; omega)
    simp only [tk] at this
    rw [this]
    simp [Fields.norm]

/-! ### primaries -/

theorem glue_of_stopP {rest : List Tok} (h : stopP rest = true) :
    kindOf rest ≠ .BracketLeft ∧ kindOf rest ≠ .Dot ∧ kindOf rest ≠ .ParenLeft ∧ kindOf rest ≠ .BraceLeft ∧
    kindOf rest ≠ .StringLiteral ∧ kindOf rest ≠ .Dots := by
  simp only [stopP, glue, Bool.not_eq_true', Bool.or_eq_false_iff, beq_eq_false_iff_ne, ne_eq] at h
  obtain ⟨⟨⟨⟨⟨h1, h2⟩, h3⟩, h4⟩, h5⟩, h6⟩ := h
  exact ⟨h1, h2, h3, h4, h5, h6⟩

theorem prim_int (k : IntKind) (v : Nat) : PrimC (.int k v) := by
  intro f rest hf _
  simp only [Expr.need, Expr.size] at hf
  obtain ⟨f', rfl⟩ : ∃ f', f = f' + 1 := ⟨f - 1, by omega⟩
  simp only [printExpr, printInt, Expr.norm, normKind, List.cons_append, List.nil_append]
  by_cases hsg : k.isSigned v = true
  · simp only [hsg, if_true]; rw [parsePrimary]
  · simp only [hsg]; rw [parsePrimary]; simp

theorem prim_bool (v : Nat) : PrimC (.bool v) := by
  intro f rest hf _
  simp only [Expr.need, Expr.size] at hf
  obtain ⟨f', rfl⟩ : ∃ f', f = f' + 1 := ⟨f - 1, by omega⟩
  simp only [printExpr, List.cons_append, List.nil_append]
  rw [parsePrimary]
  simp [Expr.norm]

theorem eatStrings_stop (rest : List Tok) (h : kindOf rest ≠ .StringLiteral) : eatStrings rest = ([], rest) := by
  cases rest with
  | nil => rfl
  | cons t ts => simp only [kindOf_cons] at h; simp [eatStrings, h]

theorem prim_str (parts : List String) : PrimC (.str parts) := by
  intro f rest hf hs
  simp only [Expr.need, Expr.size] at hf
  obtain ⟨f', rfl⟩ : ∃ f', f = f' + 1 := ⟨f - 1, by omega⟩
  simp only [printExpr, List.cons_append, List.nil_append]
  rw [parsePrimary]
  simp [Expr.norm, eatStrings_stop rest (glue_of_stopP hs).2.2.2.2.1]

theorem prim_array {n : Nat} (ih : All n) (es : Exprs) (hs : (Expr.array es).size ≤ n + 1) (hok : es.ok = true) :
    PrimC (.array es) := by
  intro f rest hf _
  simp only [Expr.need, Expr.size] at hf hs
  obtain ⟨f', rfl⟩ : ∃ f', f = f' + 1 := ⟨f - 1, by omega⟩
  have hrec := (ih.2.1 es (by omega) hok).2
  simp only [printExpr, List.cons_append, List.append_assoc, tk, List.singleton_append]
  rw [parsePrimary]
  have := hrec f' rest (by simp only [Exprs.need]; omega)
  simp only [tk] at this
  simp [this, Expr.norm]

theorem prim_paren {n : Nat} (ih : All n) (e : Expr) (hs : (Expr.paren e).size ≤ n + 1) (hok : e.lvl.isSome = true) :
    PrimC (.paren e) := by
  intro f rest hf _
  simp only [Expr.need, Expr.size] at hf hs
  obtain ⟨f', rfl⟩ : ∃ f', f = f' + 1 := ⟨f - 1, by omega⟩
  have htop := top_of_all ih e (by omega) hok
  simp only [printExpr, List.cons_append, List.append_assoc, tk, List.singleton_append]
  rw [parsePrimary]
  have h1 := htop f' (tk .ParenRight :: rest) (by simp only [Expr.need]; omega) (by simp [stopA, stopM, stopS, stopP, glue, tk])
  simp only [tk] at h1
  simp [h1, eat, Expr.norm]

theorem prim_structural {n : Nat} (ih : All n) (name : String) (fs : Fields)
    (hs : (Expr.structural name fs).size ≤ n + 1) (hok : fs.ok = true) : PrimC (.structural name fs) := by
  intro f rest hf _
  simp only [Expr.need, Expr.size] at hf hs
  obtain ⟨f', rfl⟩ : ∃ f', f = f' + 1 := ⟨f - 1, by omega⟩
  have hrec := ih.2.2.2 fs (by omega) hok
  simp only [printExpr, List.cons_append, List.append_assoc, tk, tId, List.singleton_append]
  rw [parsePrimary]
  have := hrec f' rest (by simp only [Fields.need]; omega)
  simp only [tk] at this
  simp [this, Expr.norm]

theorem prim_call {n : Nat} (ih : All n) (name : String) (b : Bool) (args : Exprs)
    (hs : (Expr.call name b args).size ≤ n + 1) (hok : args.ok = true) : PrimC (.call name b args) := by
  intro f rest hf _
  simp only [Expr.need, Expr.size] at hf hs
  obtain ⟨f', rfl⟩ : ∃ f', f = f' + 1 := ⟨f - 1, by omega⟩
  have hrec := (ih.2.1 args (by omega) hok).1
  have := hrec f' rest (by simp only [Exprs.need]; omega)
  simp only [tk] at this
  cases b with
  | false =>
    simp only [printExpr, List.cons_append, List.append_assoc, tk, List.singleton_append]
    rw [parsePrimary]
    simp [this, Expr.norm]
  | true =>
    simp only [printExpr, List.cons_append, List.append_assoc, tk, List.singleton_append]
    rw [parsePrimary]
    simp [this, Expr.norm, eat]

theorem kindOf_steps (st : Steps) (rest : List Tok) (hr1 : kindOf rest ≠ .ParenLeft) (hr2 : kindOf rest ≠ .BraceLeft) :
    kindOf (printSteps st ++ rest) ≠ .ParenLeft ∧ kindOf (printSteps st ++ rest) ≠ .BraceLeft := by
  cases st <;> simp [printSteps, tk, hr1, hr2]

theorem prim_deref {n : Nat} (ih : All n) (d : Nat) (name : String) (st : Steps)
    (hs : (Expr.deref d name st).size ≤ n + 1) (hok : st.ok = true) (hd : d ≤ 127) (hc : st.count ≤ 127) :
    PrimC (.deref d name st) := by
  intro f rest hf hstop
  simp only [Expr.need, Expr.size] at hf hs
  obtain ⟨f', rfl⟩ : ∃ f', f = f' + 1 := ⟨f - 1, by omega⟩
  have hg := glue_of_stopP hstop
  have hrec := ih.2.2.1 st (by omega) hok f' 128 rest (by simp only [Steps.need]; omega) (by omega) hg.1 hg.2.1
  cases d with
  | zero =>
    simp only [printExpr, amps, List.nil_append, List.cons_append, tId]
    rw [parsePrimary]
    have hk := kindOf_steps st rest hg.2.2.1 hg.2.2.2.1
    simp only []
    split
    · rename_i h1; exact absurd h1 hk.1
    · rename_i h1; exact absurd h1 hk.2
    · simp [hrec, Expr.norm]
  | succ d' =>
    simp only [printExpr, amps, List.cons_append, List.append_assoc, tk]
    rw [parsePrimary]
    have ha := eatAmps_amps d' 126 (tId name) (printSteps st ++ rest) (by omega) (by simp [tId])
    rw [ha]
    simp [eat, tId, hrec, hg.2.2.2.2.2, Expr.norm]

/-! ### unary level -/

theorem un_un {n : Nat} (ih : All n) (op : UnOp) (p : Expr) (hs : (Expr.un op p).size ≤ n + 1)
    (hp : p.lvl = some 0) : UnC (.un op p) := by
  intro f rest hf hstop
  simp only [Expr.need, Expr.size] at hf hs
  obtain ⟨f', rfl⟩ : ∃ f', f = f' + 1 := ⟨f - 1, by omega⟩
  have hprim : PrimC p := (ih.1 p (by omega) 0 hp).1 rfl
  have := hprim f' rest (by simp only [Expr.need]; omega) hstop
  cases op with
  | Negative =>
    simp only [printExpr, unTok, tk, List.cons_append]
    rw [parseUnary]
    simp [this, Expr.norm]
  | BitwiseComplement =>
    simp only [printExpr, unTok, tk, List.cons_append]
    rw [parseUnary]
    simp [this, Expr.norm]

theorem un_sizeOf (t : Ty) : UnC (.sizeOf t) := by
  intro f rest hf _
  simp only [Expr.need, Expr.size] at hf
  obtain ⟨f', rfl⟩ : ∃ f', f = f' + 1 := ⟨f - 1, by omega⟩
  simp only [printExpr, tk, List.cons_append, List.append_assoc, List.singleton_append]
  rw [parseUnary]
  have := parse_print_ty t ({ kind := Kind.Pipe } :: rest) f' (by omega)
  simp [parseType, this, eat, Expr.norm]

theorem un_lengthOf {n : Nat} (ih : All n) (d : Nat) (name : String) (st : Steps)
    (hs : (Expr.lengthOf d name st).size ≤ n + 1) (hok : st.ok = true) (hd : d ≤ 127) (hc : st.count ≤ 127) :
    UnC (.lengthOf d name st) := by
  intro f rest hf _
  simp only [Expr.need, Expr.size] at hf hs
  obtain ⟨f', rfl⟩ : ∃ f', f = f' + 1 := ⟨f - 1, by omega⟩
  have hrec := ih.2.2.1 st (by omega) hok f' 128 ({ kind := Kind.Pipe } :: rest) (by simp only [Steps.need]; omega)
    (by omega) (by simp) (by simp)
  simp only [printExpr, tk, List.cons_append, List.append_assoc, List.singleton_append]
  rw [parseUnary]
  have ha := eatAmps_amps d 127 (tId name) (printSteps st ++ { kind := Kind.Pipe } :: rest) hd (by simp [tId])
  simp only [kindOf_cons, List.drop_one, List.tail_cons, List.nil_append]
  rw [ha]
  simp [eat, tId, hrec, Expr.norm]

/-! ### casts -/

theorem ty_depth_pos (t : Ty) : 1 ≤ t.depth := by cases t <;> simp [Ty.depth]

theorem sing_bitcast {n : Nat} (ih : All n) (u : Expr) (l : Nat) (hs : (Expr.bitcast u).size ≤ n + 1)
    (hu : u.lvl = some l) (hl : l ≤ 1) : SingK (.bitcast u) := by
  intro f rest hf hstop
  simp only [Expr.need, Expr.size] at hf hs
  have hun : UnC u := (ih.1 u (by omega) l hu).2.1 hl
  refine ⟨f, Nat.le_refl _, by omega, ?_⟩
  simp only [printExpr, tk, List.cons_append]
  rw [parseSingular]
  simp [hun f rest (by simp only [Expr.need]; omega) hstop, Expr.norm]

theorem sing_typecast {n : Nat} (ih : All n) (e1 : Expr) (t : Ty) (l : Nat) (hs : (Expr.typecast e1 t).size ≤ n + 1)
    (he : e1.lvl = some l) (hl : l ≤ 2) : SingK (.typecast e1 t) := by
  intro f rest hf _
  simp only [Expr.need, Expr.size] at hf hs
  have hk : SingK e1 := (ih.1 e1 (by omega) l he).2.2.1 hl
  have hpos := size_pos e1
  have htd := ty_depth_pos t
  obtain ⟨g1, hg1, hg2, heq⟩ := hk f (tk .As :: (printTy t ++ rest)) (by simp only [Expr.need]; omega)
    (by simp [stopP, glue, tk])
  obtain ⟨g', rfl⟩ : ∃ g', g1 = g' + 1 := ⟨g1 - 1, by omega⟩
  refine ⟨g', by omega, by simp only [Expr.size]; omega, ?_⟩
  simp only [printExpr, List.append_assoc, List.cons_append]
  rw [heq, asLoop]
  simp [tk, parseType, parse_print_ty t rest g' (by omega), Expr.norm]

/-! ### chains -/

def isMulOp (op : BinOp) : Bool := op == .Multiply || op == .Divide || op == .Modulo
def isAddOp (op : BinOp) : Bool := op == .Add || op == .Subtract

theorem mult_bin {n : Nat} (ih : All n) (op : BinOp) (l r : Expr) (ll lr : Nat) (hop : isMulOp op = true)
    (hs : (Expr.bin op l r).size ≤ n + 1) (hl : l.lvl = some ll) (hll : ll ≤ 3) (hr : r.lvl = some lr) (hlr : lr ≤ 2) :
    MultK (.bin op l r) := by
  intro f rest hf hstop
  simp only [Expr.need, Expr.size] at hf hs
  have hkl : MultK l := (ih.1 l (by omega) ll hl).2.2.2.1 hll
  have hcr : SingC r := singC_of_singK ((ih.1 r (by omega) lr hr).2.2.1 hlr)
  have hpl := size_pos l
  have hpr := size_pos r
  obtain ⟨g1, hg1, hg2, heq⟩ := hkl f (tk (binTok op) :: (printExpr r ++ rest)) (by simp only [Expr.need]; omega)
    (by cases op <;> simp [isMulOp] at hop <;> simp [stopS, stopP, glue, tk, binTok])
  obtain ⟨g', rfl⟩ : ∃ g', g1 = g' + 1 := ⟨g1 - 1, by omega⟩
  refine ⟨g', by omega, by simp only [Expr.size]; omega, ?_⟩
  simp only [printExpr, List.append_assoc, List.cons_append]
  rw [heq, multLoop]
  have hr' := hcr g' rest (by simp only [Expr.need]; omega) hstop
  cases op <;> simp [isMulOp] at hop <;> simp [tk, binTok, hr', Expr.norm]

theorem add_bin {n : Nat} (ih : All n) (op : BinOp) (l r : Expr) (ll lr : Nat) (hop : isAddOp op = true)
    (hs : (Expr.bin op l r).size ≤ n + 1) (hl : l.lvl = some ll) (hll : ll ≤ 4) (hr : r.lvl = some lr) (hlr : lr ≤ 3) :
    AddK (.bin op l r) := by
  intro f rest hf hstop
  simp only [Expr.need, Expr.size] at hf hs
  have hkl : AddK l := (ih.1 l (by omega) ll hl).2.2.2.2.1 hll
  have hcr : MultC r := multC_of_multK ((ih.1 r (by omega) lr hr).2.2.2.1 hlr)
  have hpl := size_pos l
  have hpr := size_pos r
  obtain ⟨g1, hg1, hg2, heq⟩ := hkl f (tk (binTok op) :: (printExpr r ++ rest)) (by simp only [Expr.need]; omega)
    (by cases op <;> simp [isAddOp] at hop <;> simp [stopM, stopS, stopP, glue, tk, binTok])
  obtain ⟨g', rfl⟩ : ∃ g', g1 = g' + 1 := ⟨g1 - 1, by omega⟩
  refine ⟨g', by omega, by simp only [Expr.size]; omega, ?_⟩
  simp only [printExpr, List.append_assoc, List.cons_append]
  rw [heq, addLoop]
  have hr' := hcr g' rest (by simp only [Expr.need]; omega) hstop
  cases op <;> simp [isAddOp] at hop <;> simp [tk, binTok, hr', Expr.norm]

theorem bit_bin {n : Nat} (ih : All n) (op : BinOp) (lv : Nat) (l r : Expr) (ll lr : Nat)
    (hbit : bitLevel op = some lv) (hs : (Expr.bin op l r).size ≤ n + 1)
    (hl : l.lvl = some ll) (hll : ll ≤ 4 ∨ ll = lv) (hr : r.lvl = some lr) (hlr : lr ≤ 1) :
    BitK (binTok op) op (.bin op l r) := by
  intro f rest hf hstop
  simp only [Expr.need, Expr.size] at hf hs
  have hur : UnC r := (ih.1 r (by omega) lr hr).2.1 hlr
  have hpl := size_pos l
  have hpr := size_pos r
  have hstop' : stopM (tk (binTok op) :: (printExpr r ++ rest)) = true := by
    cases op <;> simp [bitLevel] at hbit <;> simp [stopM, stopS, stopP, glue, tk, binTok]
  simp only [printExpr, List.append_assoc, List.cons_append]
  rcases hll with hll | hll
  · -- the chain starts here: the left operand is an additive expression
    have hkl : AddK l := (ih.1 l (by omega) ll hl).2.2.2.2.1 hll
    obtain ⟨g1, hg1, hg2, heq⟩ := hkl f _ (by simp only [Expr.need]; omega) hstop'
    obtain ⟨g3, rfl⟩ : ∃ g3, g1 = g3 + 2 := ⟨g1 - 2, by omega⟩
    refine ⟨g3, by omega, by simp only [Expr.size]; omega, ?_⟩
    rw [heq, addLoop]
    have hr' := hur g3 rest (by simp only [Expr.need]; omega) hstop
    cases op <;> simp [bitLevel] at hbit <;>
      (simp only [tk, binTok, kindOf_cons, List.drop_one, List.tail_cons]; rw [bitwiseLoop]; simp [hr', Expr.norm])
  · -- the left operand is a chain of the same operator
    subst hll
    have hkl : BitK (binTok op) op l := by
      have h := ih.1 l (by omega) ll hl
      cases op <;> simp [bitLevel] at hbit <;> subst hbit
      · exact h.2.2.2.2.2.1 rfl
      · exact h.2.2.2.2.2.2.1 rfl
      · exact h.2.2.2.2.2.2.2.1 rfl
    obtain ⟨g1, hg1, hg2, heq⟩ := hkl f (tk (binTok op) :: (printExpr r ++ rest)) (by simp only [Expr.need]; omega)
      (by cases op <;> simp [bitLevel] at hbit <;> simp [stopP, glue, tk, binTok])
    obtain ⟨g2, rfl⟩ : ∃ g2, g1 = g2 + 1 := ⟨g1 - 1, by omega⟩
    refine ⟨g2, by omega, by simp only [Expr.size]; omega, ?_⟩
    rw [heq]
    have hr' := hur g2 rest (by simp only [Expr.need]; omega) hstop
    simp only [tk, kindOf_cons, if_true, List.drop_one, List.tail_cons]
    rw [bitwiseLoop]
    simp [hr', Expr.norm]

theorem topC_of_bitK {e : Expr} {k : Kind} {op : BinOp} (hk : k = .Ampersand ∨ k = .Pipe ∨ k = .Caret)
    (h : BitK k op e) : TopC e := by
  intro f rest hf hs
  have := size_pos e
  have := need_eq e
  obtain ⟨f', rfl⟩ : ∃ f', f = f' + 1 := ⟨f - 1, by omega⟩
  obtain ⟨g, _, _, heq⟩ := h f' rest (by omega) (stopP_of_stopS (stopS_of_stopM (stopM_of_stopA hs)))
  rw [heq]
  simp only [stopA, Bool.and_eq_true, bne_iff_ne, ne_eq] at hs
  rcases hk with rfl | rfl | rfl <;> simp [hs]

theorem top_shift {n : Nat} (ih : All n) (op : BinOp) (l r : Expr) (ll lr : Nat)
    (hop : op = .ShiftLeft ∨ op = .ShiftRight) (hs : (Expr.bin op l r).size ≤ n + 1)
    (hl : l.lvl = some ll) (hll : ll ≤ 4) (hr : r.lvl = some lr) (hlr : lr ≤ 1) : TopC (.bin op l r) := by
  intro f rest hf hstop
  simp only [Expr.need, Expr.size] at hf hs
  have hkl : AddK l := (ih.1 l (by omega) ll hl).2.2.2.2.1 hll
  have hur : UnC r := (ih.1 r (by omega) lr hr).2.1 hlr
  have hpl := size_pos l
  have hpr := size_pos r
  obtain ⟨f', rfl⟩ : ∃ f', f = f' + 1 := ⟨f - 1, by omega⟩
  obtain ⟨g1, hg1, hg2, heq⟩ := hkl f' (tk (binTok op) :: (printExpr r ++ rest)) (by simp only [Expr.need]; omega)
    (by rcases hop with rfl | rfl <;> simp [stopM, stopS, stopP, glue, tk, binTok])
  obtain ⟨g2, rfl⟩ : ∃ g2, g1 = g2 + 1 := ⟨g1 - 1, by omega⟩
  simp only [printExpr, List.append_assoc, List.cons_append]
  rw [heq, addLoop]
  have hr' := hur g2 rest (by simp only [Expr.need]; omega)
    (stopP_of_stopS (stopS_of_stopM (stopM_of_stopA hstop)))
  rcases hop with rfl | rfl <;> simp [tk, binTok, hr', Expr.norm]

/-! ### the induction -/

theorem leN_elim {o : Option Nat} {n : Nat} (h : leN o n = true) : ∃ k, o = some k ∧ k ≤ n := by
  cases o with
  | none => simp [leN] at h
  | some k => exact ⟨k, rfl, by simpa [leN] using h⟩

theorem expr_step {n : Nat} (ih : All n) (e : Expr) (hs : e.size ≤ n + 1) (l : Nat) (hl : e.lvl = some l) :
    ExprClaims e l := by
  cases e with
  | int k v =>
    have : l = 0 := by simp [Expr.lvl] at hl; omega
    exact claims_of_primC this hl (prim_int k v)
  | bool v =>
    have : l = 0 := by simp [Expr.lvl] at hl; omega
    exact claims_of_primC this hl (prim_bool v)
  | str parts =>
    have : l = 0 := by simp [Expr.lvl] at hl; omega
    exact claims_of_primC this hl (prim_str parts)
  | array es =>
    simp only [Expr.lvl] at hl
    split at hl
    · rename_i hok
      have : l = 0 := by simp at hl; omega
      exact claims_of_primC this (by simp [Expr.lvl, hok, this]) (prim_array ih es hs hok)
    · simp at hl
  | structural name fs =>
    simp only [Expr.lvl] at hl
    split at hl
    · rename_i hok
      have : l = 0 := by simp at hl; omega
      exact claims_of_primC this (by simp [Expr.lvl, hok, this]) (prim_structural ih name fs hs hok)
    · simp at hl
  | paren e1 =>
    simp only [Expr.lvl] at hl
    split at hl
    · rename_i hok
      have : l = 0 := by simp at hl; omega
      exact claims_of_primC this (by simp [Expr.lvl, hok, this]) (prim_paren ih e1 hs hok)
    · simp at hl
  | deref d name st =>
    simp only [Expr.lvl] at hl
    split at hl
    · rename_i hok
      have : l = 0 := by simp at hl; omega
      simp only [Bool.and_eq_true, decide_eq_true_eq] at hok
      exact claims_of_primC this (by simp [Expr.lvl, hok, this]) (prim_deref ih d name st hs hok.1.1 hok.1.2 hok.2)
    · simp at hl
  | call name b args =>
    simp only [Expr.lvl] at hl
    split at hl
    · rename_i hok
      have : l = 0 := by simp at hl; omega
      exact claims_of_primC this (by simp [Expr.lvl, hok, this]) (prim_call ih name b args hs hok)
    · simp at hl
  | un op p =>
    simp only [Expr.lvl] at hl
    split at hl
    · rename_i hok
      have : l = 1 := by simp at hl; omega
      obtain ⟨k, hk1, hk2⟩ := leN_elim hok
      have hk0 : k = 0 := by omega
      subst hk0
      exact claims_of_unC this (by simp [Expr.lvl, hok, this]) (un_un ih op p hs hk1)
    · simp at hl
  | lengthOf d name st =>
    simp only [Expr.lvl] at hl
    split at hl
    · rename_i hok
      have : l = 1 := by simp at hl; omega
      simp only [Bool.and_eq_true, decide_eq_true_eq] at hok
      exact claims_of_unC this (by simp [Expr.lvl, hok, this]) (un_lengthOf ih d name st hs hok.1.1 hok.1.2 hok.2)
    · simp at hl
  | sizeOf t =>
    have : l = 1 := by simp [Expr.lvl] at hl; omega
    exact claims_of_unC this hl (un_sizeOf t)
  | bitcast u =>
    simp only [Expr.lvl] at hl
    split at hl
    · rename_i hok
      have : l = 2 := by simp at hl; omega
      obtain ⟨k, hk1, hk2⟩ := leN_elim hok
      exact claims_of_singK this (sing_bitcast ih u k hs hk1 hk2)
    · simp at hl
  | typecast e1 t =>
    simp only [Expr.lvl] at hl
    split at hl
    · rename_i hok
      have : l = 2 := by simp at hl; omega
      obtain ⟨k, hk1, hk2⟩ := leN_elim hok
      exact claims_of_singK this (sing_typecast ih e1 t k hs hk1 hk2)
    · simp at hl
  | bin op a b =>
    cases op with
    | Multiply | Divide | Modulo =>
      simp only [Expr.lvl] at hl
      split at hl
      · rename_i hok
        have : l = 3 := by simp at hl; omega
        simp only [Bool.and_eq_true] at hok
        obtain ⟨ka, ha1, ha2⟩ := leN_elim hok.1
        obtain ⟨kb, hb1, hb2⟩ := leN_elim hok.2
        exact claims_of_multK this (mult_bin ih _ a b ka kb (by simp [isMulOp]) hs ha1 ha2 hb1 hb2)
      · simp at hl
    | Add | Subtract =>
      simp only [Expr.lvl] at hl
      split at hl
      · rename_i hok
        have : l = 4 := by simp at hl; omega
        simp only [Bool.and_eq_true] at hok
        obtain ⟨ka, ha1, ha2⟩ := leN_elim hok.1
        obtain ⟨kb, hb1, hb2⟩ := leN_elim hok.2
        exact claims_of_addK this (add_bin ih _ a b ka kb (by simp [isAddOp]) hs ha1 ha2 hb1 hb2)
      · simp at hl
    | BitwiseAnd =>
      simp only [Expr.lvl] at hl
      split at hl
      · rename_i hok
        have hl5 : l = 5 := by simp at hl; omega
        subst hl5
        simp only [Bool.and_eq_true, Bool.or_eq_true, beq_iff_eq] at hok
        obtain ⟨kb, hb1, hb2⟩ := leN_elim hok.2
        have hbk : BitK .Ampersand .BitwiseAnd (.bin .BitwiseAnd a b) := by
          rcases hok.1 with h1 | h1
          · obtain ⟨ka, ha1, ha2⟩ := leN_elim h1
            exact bit_bin ih .BitwiseAnd 5 a b ka kb rfl hs ha1 (Or.inl ha2) hb1 hb2
          · exact bit_bin ih .BitwiseAnd 5 a b 5 kb rfl hs h1 (Or.inr rfl) hb1 hb2
        exact ⟨by omega, by omega, by omega, by omega, by omega, fun _ => hbk, by omega, by omega,
          topC_of_bitK (Or.inl rfl) hbk⟩
      · simp at hl
    | BitwiseOr =>
      simp only [Expr.lvl] at hl
      split at hl
      · rename_i hok
        have hl6 : l = 6 := by simp at hl; omega
        subst hl6
        simp only [Bool.and_eq_true, Bool.or_eq_true, beq_iff_eq] at hok
        obtain ⟨kb, hb1, hb2⟩ := leN_elim hok.2
        have hbk : BitK .Pipe .BitwiseOr (.bin .BitwiseOr a b) := by
          rcases hok.1 with h1 | h1
          · obtain ⟨ka, ha1, ha2⟩ := leN_elim h1
            exact bit_bin ih .BitwiseOr 6 a b ka kb rfl hs ha1 (Or.inl ha2) hb1 hb2
          · exact bit_bin ih .BitwiseOr 6 a b 6 kb rfl hs h1 (Or.inr rfl) hb1 hb2
        exact ⟨by omega, by omega, by omega, by omega, by omega, by omega, fun _ => hbk, by omega,
          topC_of_bitK (Or.inr (Or.inl rfl)) hbk⟩
      · simp at hl
    | BitwiseXor =>
      simp only [Expr.lvl] at hl
      split at hl
      · rename_i hok
        have hl7 : l = 7 := by simp at hl; omega
        subst hl7
        simp only [Bool.and_eq_true, Bool.or_eq_true, beq_iff_eq] at hok
        obtain ⟨kb, hb1, hb2⟩ := leN_elim hok.2
        have hbk : BitK .Caret .BitwiseXor (.bin .BitwiseXor a b) := by
          rcases hok.1 with h1 | h1
          · obtain ⟨ka, ha1, ha2⟩ := leN_elim h1
            exact bit_bin ih .BitwiseXor 7 a b ka kb rfl hs ha1 (Or.inl ha2) hb1 hb2
          · exact bit_bin ih .BitwiseXor 7 a b 7 kb rfl hs h1 (Or.inr rfl) hb1 hb2
        exact ⟨by omega, by omega, by omega, by omega, by omega, by omega, by omega, fun _ => hbk,
          topC_of_bitK (Or.inr (Or.inr rfl)) hbk⟩
      · simp at hl
    | ShiftLeft | ShiftRight =>
      simp only [Expr.lvl] at hl
      split at hl
      · rename_i hok
        have hl8 : l = 8 := by simp at hl; omega
        subst hl8
        simp only [Bool.and_eq_true] at hok
        obtain ⟨ka, ha1, ha2⟩ := leN_elim hok.1
        obtain ⟨kb, hb1, hb2⟩ := leN_elim hok.2
        exact ⟨by omega, by omega, by omega, by omega, by omega, by omega, by omega, by omega,
          top_shift ih _ a b ka kb (by simp) hs ha1 ha2 hb1 hb2⟩
      · simp at hl
    | AdvancePointer => simp [Expr.lvl] at hl

theorem all_n : ∀ n, All n := by
  intro n
  induction n with
  | zero =>
    refine ⟨?_, ?_, ?_, ?_⟩
    · intro e hs; have := size_pos e; omega
    · intro es hs; have := exprs_size_pos es; omega
    · intro st hs; have := steps_size_pos st; omega
    · intro fs hs; have := fields_size_pos fs; omega
  | succ n ih =>
    exact ⟨fun e hs l hl => expr_step ih e hs l hl,
      fun es hs hok => ⟨args_step ih es hs hok, elems_step ih es hs hok⟩,
      fun st hs hok => steps_step ih st hs hok,
      fun fs hs hok => fields_step ih fs hs hok⟩

end Syn
