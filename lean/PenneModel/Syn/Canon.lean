/-
  Which trees the parser can produce (`lvl`), what one trip through the rebuilder does to a tree
  (`norm`: literals are re-spelled, adjacent string pieces joined), sizes, and what may follow an
  expression without being absorbed into it.
-/
import PenneModel.Syn.Parse
import PenneModel.Syn.Print

namespace Syn
open Flat (Kind)

def Ty.depth : Ty → Nat
  | .simple _ => 1
  | .named _ => 1
  | .ptr t => t.depth + 1
  | .view t => t.depth + 1
  | .arraylike t => t.depth + 1
  | .slice t => t.depth + 1
  | .endless t => t.depth + 1
  | .array _ t => t.depth + 1
  | .arrayNamed _ t => t.depth + 1

mutual
def Expr.size : Expr → Nat
  | .int _ _ => 1
  | .bool _ => 1
  | .str _ => 1
  | .array es => es.size + 1
  | .structural _ fs => fs.size + 1
  | .paren e => e.size + 1
  | .deref _ _ st => st.size + 1
  | .call _ _ args => args.size + 1
  | .bin _ l r => l.size + r.size + 1
  | .un _ e => e.size + 1
  | .bitcast e => e.size + 1
  | .typecast e t => e.size + t.depth + 1
  | .lengthOf _ _ st => st.size + 1
  | .sizeOf t => t.depth + 1
def Exprs.size : Exprs → Nat
  | .nil => 1
  | .cons e es => e.size + es.size + 1
def Steps.size : Steps → Nat
  | .nil => 1
  | .member _ rest => rest.size + 1
  | .elem e rest => e.size + rest.size + 1
def Fields.size : Fields → Nat
  | .nil => 1
  | .cons _ e rest => e.size + rest.size + 1
end

def Steps.count : Steps → Nat
  | .nil => 0
  | .member _ rest => rest.count + 1
  | .elem _ rest => rest.count + 1

mutual
def Expr.norm : Expr → Expr
  | .int k v => .int (normKind k v) v
  | .bool v => .bool v
  | .str parts => .str [String.join parts]
  | .array es => .array es.norm
  | .structural name fs => .structural name fs.norm
  | .paren e => .paren e.norm
  | .deref d name st => .deref d name st.norm
  | .call name b args => .call name b args.norm
  | .bin op l r => .bin op l.norm r.norm
  | .un op e => .un op e.norm
  | .bitcast e => .bitcast e.norm
  | .typecast e t => .typecast e.norm t
  | .lengthOf d name st => .lengthOf d name st.norm
  | .sizeOf t => .sizeOf t
def Exprs.norm : Exprs → Exprs
  | .nil => .nil
  | .cons e es => .cons e.norm es.norm
def Steps.norm : Steps → Steps
  | .nil => .nil
  | .member id rest => .member id rest.norm
  | .elem e rest => .elem e.norm rest.norm
def Fields.norm : Fields → Fields
  | .nil => .nil
  | .cons name e rest => .cons name e.norm rest.norm
end

/-! ### levels: 0 primary, 1 unary, 2 singular (casts), 3 multiplicative chain, 4 additive chain,
    5/6/7 chain of `&` / `|` / `^`, 8 shift.  `none`: not a tree the parser produces
    (or uses the pointer-advance operator, which this theorem leaves out). -/

def leN (o : Option Nat) (n : Nat) : Bool :=
  match o with
  | some k => decide (k ≤ n)
  | none => false

def bitLevel : BinOp → Option Nat
  | .BitwiseAnd => some 5
  | .BitwiseOr => some 6
  | .BitwiseXor => some 7
  | _ => none

mutual
def Expr.lvl : Expr → Option Nat
  | .int _ _ => some 0
  | .bool _ => some 0
  | .str _ => some 0
  | .array es => if es.ok then some 0 else none
  | .structural _ fs => if fs.ok then some 0 else none
  | .paren e => if e.lvl.isSome then some 0 else none
  | .deref d _ st => if st.ok && decide (d ≤ 127) && decide (st.count ≤ 126) then some 0 else none
  | .call _ _ args => if args.ok then some 0 else none
  | .un _ e => if leN e.lvl 0 then some 1 else none
  | .lengthOf d _ st => if st.ok && decide (d ≤ 127) && decide (st.count ≤ 126) then some 1 else none
  | .sizeOf _ => some 1
  | .bitcast e => if leN e.lvl 1 then some 2 else none
  | .typecast e _ => if leN e.lvl 2 then some 2 else none
  | .bin op l r =>
    match op with
    | .Multiply | .Divide | .Modulo => if leN l.lvl 3 && leN r.lvl 2 then some 3 else none
    | .Add | .Subtract => if leN l.lvl 4 && leN r.lvl 3 then some 4 else none
    | .BitwiseAnd => if (leN l.lvl 4 || l.lvl == some 5) && leN r.lvl 1 then some 5 else none
    | .BitwiseOr => if (leN l.lvl 4 || l.lvl == some 6) && leN r.lvl 1 then some 6 else none
    | .BitwiseXor => if (leN l.lvl 4 || l.lvl == some 7) && leN r.lvl 1 then some 7 else none
    | .ShiftLeft | .ShiftRight => if leN l.lvl 4 && leN r.lvl 1 then some 8 else none
    | .AdvancePointer => none
def Exprs.ok : Exprs → Bool
  | .nil => true
  | .cons e es => e.lvl.isSome && es.ok
def Steps.ok : Steps → Bool
  | .nil => true
  | .member _ rest => rest.ok
  | .elem e rest => e.lvl.isSome && rest.ok
def Fields.ok : Fields → Bool
  | .nil => true
  | .cons _ e rest => e.lvl.isSome && rest.ok
end

/-! ### what may follow -/

/-- tokens that would be absorbed by a primary expression that ends just before them -/
def glue (k : Kind) : Bool :=
  k == .BracketLeft || k == .Dot || k == .ParenLeft || k == .BraceLeft || k == .StringLiteral || k == .Dots

def stopP (rest : List Tok) : Bool := !glue (kindOf rest)
def stopS (rest : List Tok) : Bool := stopP rest && kindOf rest != .As
def stopM (rest : List Tok) : Bool :=
  stopS rest && kindOf rest != .Times && kindOf rest != .Divide && kindOf rest != .Modulo
def stopA (rest : List Tok) : Bool :=
  stopM rest && kindOf rest != .Plus && kindOf rest != .Minus && kindOf rest != .Ampersand && kindOf rest != .Pipe
    && kindOf rest != .Caret && kindOf rest != .ShiftLeft && kindOf rest != .ShiftRight

/-- fuel that suffices to parse the printed form -/
def Expr.need (e : Expr) : Nat := 16 * e.size

end Syn
