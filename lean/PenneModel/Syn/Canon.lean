/-
  Which trees the parser can produce (`lvl`), what one trip through the rebuilder does to a tree
  (`norm`: literals are re-spelled, adjacent string pieces joined), sizes, and what may follow an
  expression without being absorbed into it.
-/
import PenneModel.Syn.Parse
import PenneModel.Syn.Print

namespace Syn
open Flat (Kind)

def Ty.depth : Ty → Nat
  | .simple _ => 1
  | .named _ => 1
  | .ptr t => t.depth + 1
  | .view t => t.depth + 1
  | .arraylike t => t.depth + 1
  | .slice t => t.depth + 1
  | .endless t => t.depth + 1
  | .array _ t => t.depth + 1
  | .arrayNamed _ t => t.depth + 1

mutual
def Expr.size : Expr → Nat
  | .int _ _ => 1
  | .bool _ => 1
  | .str _ => 1
  | .array es => es.size + 1
  | .structural _ fs => fs.size + 1
  | .paren e => e.size + 1
  | .deref _ _ st => st.size + 1
  | .call _ _ args => args.size + 1
  | .bin _ l r => l.size + r.size + 1
  | .un _ e => e.size + 1
  | .bitcast e => e.size + 1
  | .typecast e t => e.size + t.depth + 1
  | .lengthOf _ _ st => st.size + 1
  | .sizeOf t => t.depth + 1
def Exprs.size : Exprs → Nat
  | .nil => 1
  | .cons e es => e.size + es.size + 1
def Steps.size : Steps → Nat
  | .nil => 1
  | .member _ rest => rest.size + 1
  | .elem e rest => e.size + rest.size + 1
def Fields.size : Fields → Nat
  | .nil => 1
  | .cons _ e rest => e.size + rest.size + 1
end

def Steps.count : Steps → Nat
  | .nil => 0
  | .member _ rest => rest.count + 1
  | .elem _ rest => rest.count + 1

mutual
def Expr.norm : Expr → Expr
  | .int k v => .int (normKind k v) v
  | .bool v => .bool v
  | .str parts => .str [String.join parts]
  | .array es => .array es.norm
  | .structural name fs => .structural name fs.norm
  | .paren e => .paren e.norm
  | .deref d name st => .deref d name st.norm
  | .call name b args => .call name b args.norm
  | .bin op l r => .bin op l.norm r.norm
  | .un op e => .un op e.norm
  | .bitcast e => .bitcast e.norm
  | .typecast e t => .typecast e.norm t
  | .lengthOf d name st => .lengthOf d name st.norm
  | .sizeOf t => .sizeOf t
def Exprs.norm : Exprs → Exprs
  | .nil => .nil
  | .cons e es => .cons e.norm es.norm
def Steps.norm : Steps → Steps
  | .nil => .nil
  | .member id rest => .member id rest.norm
  | .elem e rest => .elem e.norm rest.norm
def Fields.norm : Fields → Fields
  | .nil => .nil
  | .cons name e rest => .cons name e.norm rest.norm
end

/-! ### levels: 0 primary, 1 unary, 2 singular (casts), 3 multiplicative chain, 4 additive chain,
    5/6/7 chain of `&` / `|` / `^`, 8 shift.  `none`: not a tree the parser produces
    (or uses the pointer-advance operator, which this theorem leaves out). -/

def leN (o : Option Nat) (n : Nat) : Bool :=
  match o with
  | some k => decide (k ≤ n)
  | none => false

def bitLevel : BinOp → Option Nat
  | .BitwiseAnd => some 5
  | .BitwiseOr => some 6
  | .BitwiseXor => some 7
  | _ => none

mutual
def Expr.lvl : Expr → Option Nat
  | .int _ _ => some 0
  | .bool _ => some 0
  | .str _ => some 0
  | .array es => if es.ok then some 0 else none
  | .structural _ fs => if fs.ok then some 0 else none
  | .paren e => if e.lvl.isSome then some 0 else none
  | .deref d _ st => if st.ok && decide (d ≤ 127) && decide (st.count ≤ 127) then some 0 else none
  | .call _ _ args => if args.ok then some 0 else none
  | .un _ e => if leN e.lvl 0 then some 1 else none
  | .lengthOf d _ st => if st.ok && decide (d ≤ 127) && decide (st.count ≤ 127) then some 1 else none
  | .sizeOf _ => some 1
  | .bitcast e => if leN e.lvl 1 then some 2 else none
  | .typecast e _ => if leN e.lvl 2 then some 2 else none
  | .bin op l r =>
    match op with
    | .Multiply | .Divide | .Modulo => if leN l.lvl 3 && leN r.lvl 2 then some 3 else none
    | .Add | .Subtract => if leN l.lvl 4 && leN r.lvl 3 then some 4 else none
    | .BitwiseAnd => if (leN l.lvl 4 || l.lvl == some 5) && leN r.lvl 1 then some 5 else none
    | .BitwiseOr => if (leN l.lvl 4 || l.lvl == some 6) && leN r.lvl 1 then some 6 else none
    | .BitwiseXor => if (leN l.lvl 4 || l.lvl == some 7) && leN r.lvl 1 then some 7 else none
    | .ShiftLeft | .ShiftRight => if leN l.lvl 4 && leN r.lvl 1 then some 8 else none
    | .AdvancePointer => none
def Exprs.ok : Exprs → Bool
  | .nil => true
  | .cons e es => e.lvl.isSome && es.ok
def Steps.ok : Steps → Bool
  | .nil => true
  | .member _ rest => rest.ok
  | .elem e rest => e.lvl.isSome && rest.ok
def Fields.ok : Fields → Bool
  | .nil => true
  | .cons _ e rest => e.lvl.isSome && rest.ok
end

/-! ### what may follow -/

/-- tokens that would be absorbed by a primary expression that ends just before them -/
def glue (k : Kind) : Bool :=
  k == .BracketLeft || k == .Dot || k == .ParenLeft || k == .BraceLeft || k == .StringLiteral || k == .Dots

def stopP (rest : List Tok) : Bool := !glue (kindOf rest)
def stopS (rest : List Tok) : Bool := stopP rest && kindOf rest != .As
def stopM (rest : List Tok) : Bool :=
  stopS rest && kindOf rest != .Times && kindOf rest != .Divide && kindOf rest != .Modulo
def stopA (rest : List Tok) : Bool :=
  stopM rest && kindOf rest != .Plus && kindOf rest != .Minus && kindOf rest != .Ampersand && kindOf rest != .Pipe
    && kindOf rest != .Caret && kindOf rest != .ShiftLeft && kindOf rest != .ShiftRight

/-- fuel that suffices to parse the printed form -/
def Expr.need (e : Expr) : Nat := 16 * e.size

end Syn

/-! ### statements and declarations -/

namespace Syn
open Flat (Kind)

mutual
/-- no structure literal anywhere: the printed tokens then contain no `{` (needed in `if` conditions, which
    are parsed on the tokens before the first `{` or `;`) -/
def Expr.noStruct : Expr → Bool
  | .int _ _ => true
  | .bool _ => true
  | .str _ => true
  | .array es => es.noStruct
  | .structural _ _ => false
  | .paren e => e.noStruct
  | .deref _ _ st => st.noStruct
  | .call _ _ args => args.noStruct
  | .bin _ l r => l.noStruct && r.noStruct
  | .un _ e => e.noStruct
  | .bitcast e => e.noStruct
  | .typecast e _ => e.noStruct
  | .lengthOf _ _ st => st.noStruct
  | .sizeOf _ => true
def Exprs.noStruct : Exprs → Bool
  | .nil => true
  | .cons e es => e.noStruct && es.noStruct
def Steps.noStruct : Steps → Bool
  | .nil => true
  | .member _ rest => rest.noStruct
  | .elem e rest => e.noStruct && rest.noStruct
def Fields.noStruct : Fields → Bool
  | .nil => true
  | .cons _ e rest => e.noStruct && rest.noStruct
end

def optSize : Option Expr → Nat
  | none => 0
  | some e => e.size

def optTySize : Option Ty → Nat
  | none => 0
  | some t => t.depth

mutual
def Stmt.size : Stmt → Nat
  | .var _ ty val => optTySize ty + optSize val + 1
  | .assign _ _ st e => st.size + e.size + 1
  | .mcall _ _ args => args.size + 1
  | .loop => 1
  | .goto _ => 1
  | .label _ => 1
  | .ifThen _ l r th => l.size + r.size + th.size + 1
  | .ifElse _ l r th el => l.size + r.size + th.size + el.size + 1
  | .block ss => ss.size + 1
def Stmts.size : Stmts → Nat
  | .nil => 1
  | .cons s ss => s.size + ss.size + 1
end

def optNorm : Option Expr → Option Expr
  | none => none
  | some e => some e.norm

mutual
def Stmt.norm : Stmt → Stmt
  | .var name ty val => .var name ty (optNorm val)
  | .assign d name st e => .assign d name st.norm e.norm
  | .mcall name b args => .mcall name b args.norm
  | .loop => .loop
  | .goto l => .goto l
  | .label l => .label l
  | .ifThen op l r th => .ifThen op l.norm r.norm th.norm
  | .ifElse op l r th el => .ifElse op l.norm r.norm th.norm el.norm
  | .block ss => .block ss.norm
def Stmts.norm : Stmts → Stmts
  | .nil => .nil
  | .cons s ss => .cons s.norm ss.norm
end

/-- would a following `else` be taken by this statement -/
def Stmt.isOpen : Stmt → Bool
  | .ifThen _ _ _ _ => true
  | .ifElse _ _ _ _ el => el.isOpen
  | _ => false

/-- does the statement start with `&` (an assignment through an address): after an `if` condition the `&` would be
    read as a bitwise operator -/
def Stmt.startsAmp : Stmt → Bool
  | .assign d _ _ _ => decide (0 < d)
  | _ => false

def optOk : Option Expr → Bool
  | none => true
  | some e => e.lvl.isSome

mutual
/-- the statements the parser can produce (and the printer can print back) -/
def Stmt.ok : Stmt → Bool
  | .var _ _ val => optOk val
  | .assign d _ st e => st.ok && decide (d ≤ 127) && decide (st.count ≤ 127) && e.lvl.isSome
  | .mcall _ _ args => args.ok
  | .loop => true
  | .goto _ => true
  | .label _ => true
  | .ifThen _ l r th =>
    l.lvl.isSome && r.lvl.isSome && l.noStruct && r.noStruct && th.ok && !th.startsAmp
  | .ifElse _ l r th el =>
    l.lvl.isSome && r.lvl.isSome && l.noStruct && r.noStruct && th.ok && !th.startsAmp && !th.isOpen && el.ok
  | .block ss => ss.ok
def Stmts.ok : Stmts → Bool
  | .nil => true
  | .cons s ss => s.ok && ss.ok
end

def Stmt.need (s : Stmt) : Nat := 16 * s.size + 8
def Stmts.need (ss : Stmts) : Nat := 16 * ss.size + 8

end Syn

namespace Syn
open Flat (Kind)

def typedSize : List (String × Ty) → Nat
  | [] => 1
  | (_, t) :: rest => t.depth + typedSize rest + 1

def bodySize : Option (Stmts × Option Expr) → Nat
  | none => 1
  | some (ss, rv) => ss.size + optSize rv + 1

def Decl.size : Decl → Nat
  | .imp _ => 1
  | .const _ _ ty e => ty.depth + e.size + 1
  | .fn _ _ params ret body => typedSize params + ret.depth + bodySize body + 1
  | .struct _ _ _ members => typedSize members + 1

def bodyNorm : Option (Stmts × Option Expr) → Option (Stmts × Option Expr)
  | none => none
  | some (ss, rv) => some (ss.norm, optNorm rv)

def Decl.norm : Decl → Decl
  | .imp raw => .imp raw
  | .const fl name ty e => .const fl name ty e.norm
  | .fn fl name params ret body => .fn fl name params ret (bodyNorm body)
  | .struct fl name ws members => .struct fl name ws members

def bodyOk : Option (Stmts × Option Expr) → Bool
  | none => true
  | some (ss, rv) => ss.ok && optOk rv

def Decl.ok : Decl → Bool
  | .imp _ => true
  | .const fl _ _ e => !fl.isOpaque && e.lvl.isSome
  | .fn fl _ _ _ body => !fl.isOpaque && bodyOk body
  | .struct fl _ ws members =>
    if fl.isOpaque then ws.isNone && members.isEmpty
    else match ws with
      | none => true
      | some n => n == 1 || n == 2 || n == 4 || n == 8 || n == 16

def Decl.need (d : Decl) : Nat := 16 * d.size + 16

/-- what is left after a declaration: the closing brace after a return value is not consumed by
    `parse_function_body` (the declaration loop skips it) -/
def declRest (d : Decl) (rest : List Tok) : List Tok :=
  match d with
  | .fn _ _ _ _ (some (_, some _)) => tk .BraceRight :: rest
  | _ => rest

end Syn
