import PenneModel.Lit.Model
/-
  Integer semantics.  Two layers:
  * the *documented* meaning of operators on values (mathematical integers, wrapped into the type's range);
    this is what the source interpreter `Sem/Interp.lean` uses;
  * the *machine* operations the generator selects (generator.rs: `LLVMBuildAdd`, `SDiv`/`UDiv`, `SRem`/`URem`,
    `Shl`, `LShr`, `ICmp` with signed/unsigned predicates, `Trunc`/`SExt`/`ZExt`), on bit vectors.
  Props/C01.lean proves that the two agree for every width.
-/
namespace Sem
open Lex Lit

inductive BinOp where
  | add | sub | mul | div | mod | and | or | xor | shl | shr
  deriving DecidableEq, Repr

inductive CmpOp where
  | eq | ne | lt | le | gt | ge
  deriving DecidableEq, Repr

/-- truncating division / remainder (LLVM sdiv/srem semantics on mathematical integers) -/
def tdiv (a b : Int) : Int := Int.tdiv a b
def tmod (a b : Int) : Int := Int.tmod a b

/-- documented meaning of a binary operator at type `t` on in-range values; `none` = undefined behaviour -/
def binop (t : Ty) (op : BinOp) (a b : Int) : Option Int :=
  match op with
  | .add => some (wrap t (a + b))
  | .sub => some (wrap t (a - b))
  | .mul => some (wrap t (a * b))
  | .div => if b == 0 then none
            else if isSigned t && a == minOf t && b == -1 then none
            else some (wrap t (tdiv a b))
  | .mod => if b == 0 then none
            else if isSigned t && a == minOf t && b == -1 then none
            else some (wrap t (tmod a b))
  | .and => some (Int.ofNat (a.toNat &&& b.toNat))
  | .or => some (Int.ofNat (a.toNat ||| b.toNat))
  | .xor => some (Int.ofNat (a.toNat ^^^ b.toNat))
  | .shl => if b < 0 || b ≥ width t then none else some (wrap t (a * 2 ^ b.toNat))
  | .shr => if b < 0 || b ≥ width t then none else some (a / 2 ^ b.toNat)

def cmp (op : CmpOp) (a b : Int) : Bool :=
  match op with
  | .eq => a == b
  | .ne => a != b
  | .lt => decide (a < b)
  | .le => decide (a ≤ b)
  | .gt => decide (a > b)
  | .ge => decide (a ≥ b)

/-- `e as t'` between integer types: trunc / sext / zext all amount to re-reading the value in the target type -/
def cast (t' : Ty) (v : Int) : Int := wrap t' v

/-- bitwise complement at an unsigned type -/
def complement (t : Ty) (a : Int) : Int := (2 ^ width t : Int) - 1 - a

/-- negation at a signed type (wraps for the minimum) -/
def negate (t : Ty) (a : Int) : Int := wrap t (-a)

/-! ### machine level -/

def toBV (w : Nat) (v : Int) : BitVec w := BitVec.ofInt w v
def ofBV (signed : Bool) {w : Nat} (x : BitVec w) : Int := if signed then x.toInt else (x.toNat : Int)

/-- the instruction the generator emits for `op` at a type with the given signedness -/
def machineBin (signed : Bool) {w : Nat} (op : BinOp) (x y : BitVec w) : BitVec w :=
  match op with
  | .add => x + y
  | .sub => x - y
  | .mul => x * y
  | .div => if signed then x.sdiv y else x.udiv y
  | .mod => if signed then x.srem y else x.umod y
  | .and => x &&& y
  | .or => x ||| y
  | .xor => x ^^^ y
  | .shl => x <<< y.toNat
  | .shr => x >>> y.toNat

def machineCmp (signed : Bool) {w : Nat} (op : CmpOp) (x y : BitVec w) : Bool :=
  match op with
  | .eq => x == y
  | .ne => x != y
  | .lt => if signed then x.slt y else x.ult y
  | .le => if signed then x.sle y else x.ule y
  | .gt => if signed then y.slt x else y.ult x
  | .ge => if signed then y.sle x else y.ule x

end Sem
