import PenneModel.Sexp
/-
  C10 — storage layout: what `|:T|` yields (generator.rs `Expression::SizeOf`: LLVM's size of the type under the
  module's data layout `e-m:e-p:64:64-i64:64-n8:16:32:64-S64`, with `bool` special-cased to 1), and the
  typer's own size computation for words (typer.rs `align_struct`).
-/
namespace Layout

mutual
inductive LTy where
  | int (bytes : Nat)        -- 1, 2, 4, 8, 16 (usize = 8, char8 = 1)
  | bool
  | ptr
  | ptr32                    -- a pointer under the wasm32 data layout `e-p:32:32-i64:64-n32:64-S64` (usize is `int 4` there)
  | arr (n : Nat) (t : LTy)
  | struct (ms : LTys)       -- struct and word alike: an unpacked LLVM struct of the member types
inductive LTys where
  | nil
  | cons (t : LTy) (ts : LTys)
end

/-- round `n` up to a multiple of `a` (typer.rs `align`) -/
def roundUp (n a : Nat) : Nat := a * ((n + a - 1) / a)

mutual
/-- ABI alignment: integers align to their size, capped at 8 (i128 included, as LLVM resolves `i64:64`) -/
def alignOf : LTy → Nat
  | .int b => min b 8
  | .bool => 1
  | .ptr => 8
  | .ptr32 => 4
  | .arr _ t => alignOf t
  | .struct ms => alignMax ms
def alignMax : LTys → Nat
  | .nil => 1
  | .cons t ts => max (alignOf t) (alignMax ts)
end

mutual
/-- allocation size -/
def sizeOf : LTy → Nat
  | .int b => b
  | .bool => 1
  | .ptr => 8
  | .ptr32 => 4
  | .arr n t => n * sizeOf t
  | .struct ms => roundUp (layoutEnd 0 ms) (alignMax ms)
/-- end offset after placing the members one after another from offset `off`, each at its alignment -/
def layoutEnd (off : Nat) : LTys → Nat
  | .nil => off
  | .cons t ts => layoutEnd (roundUp off (alignOf t) + sizeOf t) ts
end

/-- typer.rs `align_struct` for a list of (size, ·) word members: alignment = next power of two of the size, at most 8 -/
def typerAlign (size : Nat) : Nat := min (if size ≤ 1 then 1 else if size ≤ 2 then 2 else if size ≤ 4 then 4 else 8) 8

def typerEnd (off : Nat) : List Nat → Nat
  | [] => off
  | s :: ss => typerEnd (roundUp off (typerAlign s) + s) ss

def typerMaxAlign : List Nat → Nat
  | [] => 1
  | s :: ss => max (typerAlign s) (typerMaxAlign ss)

def typerWordSize (sizes : List Nat) : Nat := roundUp (typerEnd 0 sizes) (typerMaxAlign sizes)

open Sexp in
mutual
def ofSexp : Nat → Sexp → Option LTy
  | 0, _ => none
  | k + 1, s =>
    match s with
    | .list [.atom "int", b] => do some (.int (← b.toNat?))
    | .atom "bool" => some .bool
    | .atom "ptr" => some .ptr
    | .atom "ptr32" => some .ptr32
    | .list [.atom "arr", n, t] => do some (.arr (← n.toNat?) (← ofSexp k t))
    | .list (.atom "struct" :: ms) => do some (.struct (← ofSexps k ms))
    | _ => none
def ofSexps : Nat → List Sexp → Option LTys
  | 0, _ => none
  | _, [] => some .nil
  | k + 1, m :: ms => do some (.cons (← ofSexp k m) (← ofSexps k ms))
end

end Layout
