/-
  C11, behaviour: the meaning of a program does not depend on the order of its function declarations.  The source
  interpreter consults the list of functions only to look a function up by name; two lists that answer every lookup alike
  (`SameLookup` — in particular any permutation of a list with distinct names) give the same result for every expression,
  statement and call, at every fuel.
-/
import PenneModel.Sem.Parse

namespace Sem

def SameLookup (fns fns' : List Fn) : Prop := ∀ f : String, fns.find? (·.name == f) = fns'.find? (·.name == f)

theorem interp_congr (fns fns' : List Fn) (h : SameLookup fns fns') : ∀ fuel : Nat,
    eval fns fuel = eval fns' fuel ∧ evalArgs fns fuel = evalArgs fns' fuel ∧ callFn fns fuel = callFn fns' fuel ∧
    exec fns fuel = exec fns' fuel ∧ execList fns fuel = execList fns' fuel := by
  intro fuel
  induction fuel with
  | zero =>
    refine ⟨?_, ?_, ?_, ?_, ?_⟩
    · funext env st e; simp [eval]
    · funext env st as; simp [evalArgs]
    · funext env st f args; simp [callFn]
    · funext env st s; simp [exec]
    · funext env0 env st ss orig; simp [execList]
  | succ n ih =>
    obtain ⟨h1, h2, h3, h4, h5⟩ := ih
    refine ⟨?_, ?_, ?_, ?_, ?_⟩
    · funext env st e
      rw [eval.eq_def, eval.eq_def (fns := fns')]
      simp only [h1, h3]
    · funext env st as
      cases as with
      | nil => simp [evalArgs]
      | cons a as => rw [evalArgs.eq_def, evalArgs.eq_def (fns := fns')]; simp only [h1, h2]
    · funext env st f args
      rw [callFn.eq_def, callFn.eq_def (fns := fns')]
      simp only [h f, h2, h5, h1]
    · funext env st s
      rw [exec.eq_def, exec.eq_def (fns := fns')]
      simp only [h1, h2, h3, h4, h5]
    · funext env0 env st ss orig
      cases ss with
      | nil => simp [execList]
      | cons s rest => rw [execList.eq_def, execList.eq_def (fns := fns')]; simp only [h4, h5]

theorem find_perm {α : Type} (p : α → Bool) : ∀ {l l' : List α}, l.Perm l' →
    (∀ a ∈ l, ∀ b ∈ l, p a = true → p b = true → a = b) → l.find? p = l'.find? p := by
  intro l l' hp
  induction hp with
  | nil => intro _; rfl
  | cons x _ ih =>
    intro hu
    simp only [List.find?_cons]
    cases p x with
    | true => rfl
    | false => exact ih (fun a ha b hb => hu a (List.mem_cons_of_mem _ ha) b (List.mem_cons_of_mem _ hb))
  | swap x y l =>
    intro hu
    simp only [List.find?_cons]
    cases hx : p x <;> cases hy : p y <;> try rfl
    have := hu y (by simp) x (by simp) hy hx
    rw [this]
  | trans _ _ ih1 ih2 =>
    rename_i l1 l2 l3 h12 h23
    intro hu
    rw [ih1 hu]
    apply ih2
    intro a ha b hb
    exact hu a (h12.symm.subset ha) b (h12.symm.subset hb)

theorem name_unique : ∀ (fns : List Fn), (fns.map (·.name)).Nodup → ∀ a ∈ fns, ∀ b ∈ fns, a.name = b.name → a = b
  | [], _, a, ha, _, _, _ => by simp at ha
  | x :: xs, hnd, a, ha, b, hb, hab => by
    simp only [List.map_cons, List.nodup_cons, List.mem_map, not_exists, not_and] at hnd
    simp only [List.mem_cons] at ha hb
    rcases ha with rfl | ha <;> rcases hb with rfl | hb
    · rfl
    · exact absurd hab.symm (hnd.1 b hb)
    · exact absurd hab (hnd.1 a ha)
    · exact name_unique xs hnd.2 a ha b hb hab

/-- a permutation of a list of functions with distinct names answers every lookup alike -/
theorem sameLookup_of_perm (fns fns' : List Fn) (hp : fns.Perm fns') (hnd : (fns.map (·.name)).Nodup) : SameLookup fns fns' := by
  intro f
  apply find_perm _ hp
  intro a ha b hb h1 h2
  simp only [beq_iff_eq] at h1 h2
  exact name_unique fns hnd a ha b hb (h1.trans h2.symm)

/-- **the order of the function declarations does not matter**: permuting the functions of a program (distinct names)
    leaves the result of running it unchanged — output, exit status, undefined behaviour and fuel exhaustion alike -/
theorem run_perm (consts : List (String × Expr)) (fns fns' : List Fn) (hp : fns.Perm fns') (hnd : (fns.map (·.name)).Nodup)
    (fuel : Nat) : run { consts := consts, fns := fns } fuel = run { consts := consts, fns := fns' } fuel := by
  obtain ⟨h1, _, h3, _, _⟩ := interp_congr fns fns' (sameLookup_of_perm fns fns' hp hnd) fuel
  simp only [run, h1, h3]

end Sem
