import PenneModel.Sem.Interp
/-
  S-expression → program AST for the interpreter (wire format of the orchestrator's program generator).
-/
namespace Sem
open Lex

def tyOf (s : String) : Option Ty :=
  match s with
  | "i8" => some .i8 | "i16" => some .i16 | "i32" => some .i32 | "i64" => some .i64 | "i128" => some .i128
  | "u8" => some .u8 | "u16" => some .u16 | "u32" => some .u32 | "u64" => some .u64 | "u128" => some .u128
  | "usize" => some .usize | "char8" => some .char8 | "bool" => some .bool | "void" => some .void
  | _ => none

def binOpOf (s : String) : Option BinOp :=
  match s with
  | "add" => some .add | "sub" => some .sub | "mul" => some .mul | "div" => some .div | "mod" => some .mod
  | "and" => some .and | "or" => some .or | "xor" => some .xor | "shl" => some .shl | "shr" => some .shr
  | _ => none

def cmpOpOf (s : String) : Option CmpOp :=
  match s with
  | "eq" => some .eq | "ne" => some .ne | "lt" => some .lt | "le" => some .le | "gt" => some .gt | "ge" => some .ge
  | _ => none

mutual
def exprOf : Nat → Sexp → Option Expr
  | 0, _ => none
  | k + 1, s =>
    match s with
    | .list [.atom "lit", .atom t, v] => do some (.lit (← tyOf t) (← v.toInt?))
    | .list [.atom "blit", .atom b] => some (.blit (b == "1"))
    | .list [.atom "var", .atom x] => some (.var x)
    | .list [.atom "idx", .atom x, i] => do some (.idx x (← exprOf k i))
    | .list [.atom "len", .atom x] => some (.len x)
    | .list [.atom "mem", .atom x, f] => do some (.mem x (← f.toNat?))
    | .list [.atom "bin", .atom t, .atom op, a, b] => do
        some (.bin (← tyOf t) (← binOpOf op) (← exprOf k a) (← exprOf k b))
    | .list [.atom "cmp", .atom t, .atom op, a, b] => do
        some (.cmp (← tyOf t) (← cmpOpOf op) (← exprOf k a) (← exprOf k b))
    | .list [.atom "neg", .atom t, a] => do some (.neg (← tyOf t) (← exprOf k a))
    | .list [.atom "compl", .atom t, a] => do some (.compl (← tyOf t) (← exprOf k a))
    | .list [.atom "cast", .atom s, .atom d, a] => do some (.cast (← tyOf s) (← tyOf d) (← exprOf k a))
    | .list (.atom "call" :: .atom f :: args) => do some (.call f (← argsOf k args))
    | .list [.atom "sizeof", n] => do some (.sizeOf (← n.toNat?))
    | _ => none
def argsOf : Nat → List Sexp → Option (List Arg)
  | 0, _ => none
  | _, [] => some []
  | k + 1, a :: as => do
    let a' ← (match a with
      | .list [.atom "val", e] => do some (Arg'.val (← exprOf k e))
      | .list [.atom "addr", .atom x] => some (Arg'.addr x)
      | .list [.atom "view", .atom x] => some (Arg'.view x)
      | _ => none)
    some (a' :: (← argsOf k as))
end

def exprsOf (k : Nat) (xs : List Sexp) : Option (List Expr) := xs.mapM (exprOf k)

mutual
def stmtOf : Nat → Sexp → Option Stmt
  | 0, _ => none
  | k + 1, s =>
    match s with
    | .list [.atom "decl", .atom x, e] => do some (.decl x (← exprOf 64 e))
    | .list (.atom "declarr" :: .atom x :: es) => do some (.declArr x (← exprsOf 64 es))
    | .list (.atom "declstruct" :: .atom x :: es) => do some (.declStruct x (← exprsOf 64 es))
    | .list [.atom "declptr", .atom x, .atom y] => some (.declPtr x y)
    | .list [.atom "assign", .atom x, e] => do some (.assign x (← exprOf 64 e))
    | .list [.atom "assignidx", .atom x, i, e] => do some (.assignIdx x (← exprOf 64 i) (← exprOf 64 e))
    | .list [.atom "assignmem", .atom x, f, e] => do some (.assignMem x (← f.toNat?) (← exprOf 64 e))
    | .list [.atom "setaddr", .atom x, .atom y] => some (.setAddr x y)
    | .list [.atom "if", c, t] => do some (.ifs (← exprOf 64 c) (← stmtOf k t) none)
    | .list [.atom "ife", c, t, e] => do some (.ifs (← exprOf 64 c) (← stmtOf k t) (some (← stmtOf k e)))
    | .list (.atom "block" :: ss) => do some (.block (← stmtsOf k ss))
    | .list [.atom "loop"] => some .loop
    | .list [.atom "goto", .atom l] => some (.goto l)
    | .list [.atom "label", .atom l] => some (.label l)
    | .list [.atom "print", e, kind] => do some (.print (← exprOf 64 e) (← kind.toNat?))
    | .list (.atom "calls" :: .atom f :: args) => do some (.callS f (← argsOf 64 args))
    | _ => none
def stmtsOf : Nat → List Sexp → Option (List Stmt)
  | 0, _ => none
  | _, [] => some []
  | k + 1, s :: ss => do some ((← stmtOf k s) :: (← stmtsOf k ss))
end

def fnOf : Sexp → Option Fn
  | .list [.atom "fn", .atom name, .list ps, .list (.atom "body" :: ss), r] => do
    let params ← ps.mapM (fun p => match p with | .atom x => some x | _ => none)
    let body ← stmtsOf 64 ss
    let ret ← (match r with
      | .list [.atom "ret", e] => do some (some (← exprOf 64 e))
      | .list [.atom "noret"] => some none
      | _ => none)
    some { name := name, params := params, body := body, ret := ret }
  | _ => none

def progOf : Sexp → Option Prog
  | .list [.atom "prog", .list (.atom "consts" :: cs), .list (.atom "fns" :: fs)] => do
    let consts ← cs.mapM (fun c => match c with
      | .list [.atom x, e] => do some (x, ← exprOf 64 e)
      | _ => none)
    let fns ← fs.mapM fnOf
    some { consts := consts, fns := fns }
  | _ => none

/-- run `main`: constants are evaluated first (in the order given: dependencies first) -/
def run (p : Prog) (fuel : Nat) : Except Err (St × Option Val) := do
  let (st, env) ← p.consts.foldlM (fun (acc : St × Env) c => do
      let (st, v) ← eval p.fns fuel acc.2 acc.1 c.2
      let (st, a) := alloc st v
      pure (st, (c.1, a) :: acc.2)) (({} : St), ([] : Env))
  callFn p.fns fuel env st "main" []

def showResult : Except Err (St × Option Val) → String
  | .error (.ub w) => "ub " ++ w
  | .error .fuel => "fuel"
  | .error (.stuck w) => "stuck " ++ w.replace " " "_"
  | .ok (st, r) =>
    let status : Int := match r with
      | some (.int v) => v % 256
      | _ => 0
    "ok status=" ++ toString status ++ " out=" ++ "|".intercalate st.out.toList

end Sem
