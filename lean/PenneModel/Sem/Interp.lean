import PenneModel.Sem.Int
import PenneModel.Sexp
/-
  Source-level interpreter for the generated program class of C01/C08/C10 (DESIGN.md §4 C01): the documented
  semantics of Penne — wrapping fixed-width integers, forward gotos, block loops, auto-dereferencing pointers,
  arrays passed as views, `|x|`, calls, constants.  Every recursive call consumes fuel, so the interpreter is
  total; running out of fuel and undefined behaviour are explicit outcomes (such programs are discarded).
-/
namespace Sem
open Lex Lit

inductive Arg' (E : Type) where
  | val (e : E)          -- by value
  | addr (x : String)    -- `&x`
  | view (x : String)    -- array (or view) `x` passed as a view
  deriving Repr

inductive Expr where
  | lit (t : Ty) (v : Int)
  | blit (b : Bool)
  | var (x : String)
  | idx (x : String) (i : Expr)
  | len (x : String)
  | mem (x : String) (f : Nat)                -- member number f of struct/word x
  | bin (t : Ty) (op : BinOp) (a b : Expr)
  | cmp (t : Ty) (op : CmpOp) (a b : Expr)
  | neg (t : Ty) (a : Expr)
  | compl (t : Ty) (a : Expr)
  | cast (src dst : Ty) (a : Expr)
  | call (f : String) (args : List (Arg' Expr))
  | sizeOf (bytes : Nat)
  deriving Repr

abbrev Arg := Arg' Expr

inductive Stmt where
  | decl (x : String) (e : Expr)
  | declArr (x : String) (es : List Expr)
  | declStruct (x : String) (es : List Expr)
  | declPtr (x : String) (y : String)          -- `var x: &T = &y;`
  | assign (x : String) (e : Expr)
  | assignIdx (x : String) (i e : Expr)
  | assignMem (x : String) (f : Nat) (e : Expr)
  | setAddr (x : String) (y : String)          -- `&x = &y;`
  | ifs (c : Expr) (t : Stmt) (e : Option Stmt)
  | block (ss : List Stmt)
  | loop
  | goto (l : String)
  | label (l : String)
  | print (e : Expr) (kind : Nat)              -- 0 integer, 1 bool
  | callS (f : String) (args : List Arg)
  deriving Repr

structure Fn where
  name : String
  params : List String
  body : List Stmt
  ret : Option Expr
  deriving Repr

structure Prog where
  consts : List (String × Expr)
  fns : List Fn
  deriving Repr

inductive Val where
  | int (v : Int)
  | bool (b : Bool)
  | arr (vs : List Val)
  | ptr (a : Nat)
  deriving Repr, Inhabited

inductive Err where
  | ub (what : String)
  | fuel
  | stuck (what : String)
  deriving Repr

structure St where
  store : Array Val := #[]
  out : Array String := #[]
  deriving Repr

abbrev Env := List (String × Nat)

inductive Flow where
  | next | jump (l : String) | again
  deriving Repr

def alloc (st : St) (v : Val) : St × Nat := ({ st with store := st.store.push v }, st.store.size)

def lookupVar (env : Env) (x : String) : Except Err Nat :=
  match env.find? (·.1 == x) with
  | some p => .ok p.2
  | none => .error (.stuck ("unbound " ++ x))

/-- follow pointers from a cell until the cell holds a non-pointer: the address of the base value -/
def baseAddr (st : St) : Nat → Nat → Except Err Nat
  | 0, _ => .error (.stuck "deref depth")
  | k + 1, a =>
    match st.store[a]? with
    | some (.ptr b) => baseAddr st k b
    | some _ => .ok a
    | none => .error (.stuck "dangling")

def readBase (st : St) (env : Env) (x : String) : Except Err (Nat × Val) := do
  let a ← lookupVar env x
  let b ← baseAddr st 16 a
  match st.store[b]? with
  | some v => .ok (b, v)
  | none => .error (.stuck "dangling")

def asInt : Val → Except Err Int
  | .int v => .ok v
  | .bool b => .ok (if b then 1 else 0)
  | _ => .error (.stuck "not an integer")

def asBool : Val → Except Err Bool
  | .bool b => .ok b
  | .int v => .ok (v != 0)
  | _ => .error (.stuck "not a bool")

/-- the statements after `label l`, if it is one of the given statements -/
def dropToLabel (l : String) : List Stmt → Option (List Stmt)
  | [] => none
  | .label l' :: rest => if l' == l then some rest else dropToLabel l rest
  | _ :: rest => dropToLabel l rest

mutual
def eval (fns : List Fn) : Nat → Env → St → Expr → Except Err (St × Val)
  | 0, _, _, _ => .error .fuel
  | fuel + 1, env, st, e =>
    match e with
    | .lit _ v => .ok (st, .int v)
    | .blit b => .ok (st, .bool b)
    | .sizeOf n => .ok (st, .int n)
    | .var x => do
        let (_, v) ← readBase st env x
        .ok (st, v)
    | .len x => do
        let (_, v) ← readBase st env x
        match v with
        | .arr vs => .ok (st, .int vs.length)
        | _ => .error (.stuck "len of non-array")
    | .idx x i => do
        let (st, iv) ← eval fns fuel env st i
        let i ← asInt iv
        let (_, v) ← readBase st env x
        match v with
        | .arr vs =>
          if i < 0 then .error (.ub "index") else
          match vs[i.toNat]? with
          | some el => .ok (st, el)
          | none => .error (.ub "index out of bounds")
        | _ => .error (.stuck "index of non-array")
    | .mem x f => do
        let (_, v) ← readBase st env x
        match v with
        | .arr vs => match vs[f]? with
          | some el => .ok (st, el)
          | none => .error (.stuck "member")
        | _ => .error (.stuck "member of non-struct")
    | .bin t op a b => do
        let (st, va) ← eval fns fuel env st a
        let (st, vb) ← eval fns fuel env st b
        let x ← asInt va
        let y ← asInt vb
        match binop t op x y with
        | some r => .ok (st, .int r)
        | none => .error (.ub "arithmetic")
    | .cmp _ op a b => do
        let (st, va) ← eval fns fuel env st a
        let (st, vb) ← eval fns fuel env st b
        let x ← asInt va
        let y ← asInt vb
        .ok (st, .bool (cmp op x y))
    | .neg t a => do
        let (st, va) ← eval fns fuel env st a
        let x ← asInt va
        .ok (st, .int (negate t x))
    | .compl t a => do
        let (st, va) ← eval fns fuel env st a
        match t with
        | .bool => do let b ← asBool va; .ok (st, .bool (!b))
        | _ => do let x ← asInt va; .ok (st, .int (complement t x))
    | .cast _ dst a => do
        let (st, va) ← eval fns fuel env st a
        let x ← asInt va
        .ok (st, .int (cast dst x))
    | .call f args => do
        let (st, r) ← callFn fns fuel env st f args
        match r with
        | some v => .ok (st, v)
        | none => .error (.stuck "void call used as value")

def evalArgs (fns : List Fn) : Nat → Env → St → List Arg → Except Err (St × List Val)
  | 0, _, _, _ => .error .fuel
  | _, _, st, [] => .ok (st, [])
  | fuel + 1, env, st, a :: as => do
    let (st, v) ← (match a with
      | .val e => eval fns fuel env st e
      | .addr x => do
          -- `&x`: the address of the base value x denotes (x itself if it is not a pointer)
          let (b, _) ← readBase st env x
          .ok (st, Val.ptr b)
      | .view x => do
          let (b, _) ← readBase st env x
          .ok (st, Val.ptr b))
    let (st, vs) ← evalArgs fns fuel env st as
    .ok (st, v :: vs)

def callFn (fns : List Fn) : Nat → Env → St → String → List Arg → Except Err (St × Option Val)
  | 0, _, _, _, _ => .error .fuel
  | fuel + 1, env, st, f, args => do
    match fns.find? (·.name == f) with
    | none => .error (.stuck ("no function " ++ f))
    | some fn => do
      let (st, vs) ← evalArgs fns fuel env st args
      -- constants stay visible: they are the bindings at the end of the caller's environment chain
      let globals := env.filter (fun p => p.1.startsWith "C_")
      let (st, env') := (fn.params.zip vs).foldl (fun (acc : St × Env) pv =>
          let (st, a) := alloc acc.1 pv.2
          (st, (pv.1, a) :: acc.2)) (st, globals)
      let (envEnd, st, flow) ← execList fns fuel env' env' st fn.body fn.body
      match flow with
      | .jump l => .error (.stuck ("jump to missing label " ++ l))
      | .again => .error (.stuck "loop in function body")
      | .next =>
        match fn.ret with
        | none => .ok (st, none)
        | some e => do
          -- the return expression sees the function's top-level declarations
          let (st, v) ← eval fns fuel envEnd st e
          .ok (st, some v)

def exec (fns : List Fn) : Nat → Env → St → Stmt → Except Err (Env × St × Flow)
  | 0, _, _, _ => .error .fuel
  | fuel + 1, env, st, s =>
    match s with
    | .decl x e => do
        let (st, v) ← eval fns fuel env st e
        let (st, a) := alloc st v
        .ok ((x, a) :: env, st, .next)
    | .declArr x es => do
        let (st, vs) ← evalArgs fns fuel env st (es.map .val)
        let (st, a) := alloc st (.arr vs)
        .ok ((x, a) :: env, st, .next)
    | .declStruct x es => do
        let (st, vs) ← evalArgs fns fuel env st (es.map .val)
        let (st, a) := alloc st (.arr vs)
        .ok ((x, a) :: env, st, .next)
    | .declPtr x y => do
        let (b, _) ← readBase st env y
        let (st, a) := alloc st (.ptr b)
        .ok ((x, a) :: env, st, .next)
    | .assign x e => do
        let (st, v) ← eval fns fuel env st e
        let (b, _) ← readBase st env x
        .ok (env, { st with store := st.store.set! b v }, .next)
    | .assignIdx x i e => do
        let (st, v) ← eval fns fuel env st e
        let (st, iv) ← eval fns fuel env st i
        let i ← asInt iv
        let (b, old) ← readBase st env x
        match old with
        | .arr vs =>
          if i < 0 || i.toNat ≥ vs.length then .error (.ub "index out of bounds")
          else .ok (env, { st with store := st.store.set! b (.arr (vs.set i.toNat v)) }, .next)
        | _ => .error (.stuck "index of non-array")
    | .assignMem x f e => do
        let (st, v) ← eval fns fuel env st e
        let (b, old) ← readBase st env x
        match old with
        | .arr vs => .ok (env, { st with store := st.store.set! b (.arr (vs.set f v)) }, .next)
        | _ => .error (.stuck "member of non-struct")
    | .setAddr x y => do
        let a ← lookupVar env x
        let (b, _) ← readBase st env y
        .ok (env, { st with store := st.store.set! a (.ptr b) }, .next)
    | .ifs c t e => do
        let (st, cv) ← eval fns fuel env st c
        let b ← asBool cv
        if b then
          let (_, st, fl) ← exec fns fuel env st t
          .ok (env, st, fl)
        else match e with
          | some e => do
            let (_, st, fl) ← exec fns fuel env st e
            .ok (env, st, fl)
          | none => .ok (env, st, .next)
    | .block ss => do
        let (_, st, fl) ← execList fns fuel env env st ss ss
        .ok (env, st, fl)
    | .loop => .ok (env, st, .again)
    | .goto l => .ok (env, st, .jump l)
    | .label _ => .ok (env, st, .next)
    | .print e kind => do
        let (st, v) ← eval fns fuel env st e
        let line ← (match kind, v with
          | 1, v => do let b ← asBool v; pure (if b then "true" else "false")
          | _, v => do let x ← asInt v; pure (toString x))
        .ok (env, { st with out := st.out.push line }, .next)
    | .callS f args => do
        let (st, _) ← callFn fns fuel env st f args
        .ok (env, st, .next)

/-- statements of one block; `orig` is the whole block (for `loop`) -/
def execList (fns : List Fn) : Nat → Env → Env → St → List Stmt → List Stmt → Except Err (Env × St × Flow)
  | 0, _, _, _, _, _ => .error .fuel
  | _, _, env, st, [], _ => .ok (env, st, .next)
  | fuel + 1, env0, env, st, s :: rest, orig => do
    let (env', st, fl) ← exec fns fuel env st s
    match fl with
    | .next => execList fns fuel env0 env' st rest orig
    | .again => execList fns fuel env0 env0 st orig orig      -- `loop`: start the block over
    | .jump l =>
      -- a forward jump: continue after the label if it is a later statement of this block
      match dropToLabel l rest with
      | some rest' => execList fns fuel env0 env' st rest' orig
      | none => .ok (env', st, .jump l)
end

end Sem
