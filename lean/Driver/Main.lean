import PenneModel.CF.Io
import PenneModel.Sexp
import PenneModel.Skel
import PenneModel.Scope.Labels
import PenneModel.Place.Syntax
import PenneModel.Scope.Vars
import PenneModel.Lex.Model
import PenneModel.Lit.Model
import PenneModel.Sem.Parse
import PenneModel.Sem.Layout
import PenneModel.Cli.Decide
import PenneModel.Decls.Imports
import PenneModel.Types.ValueType
import PenneModel.Types.Agree
import PenneModel.Gen.Address
import PenneModel.Decls.Order
import PenneModel.Types.Ops
import PenneModel.Mut.Model
import PenneModel.Flat.Header
import PenneModel.Flat.Parser
import PenneModel.Syn.Parse
import PenneModel.Syn.Print
import PenneModel.Flat.Layout
/-
  Model driver: one request per line on stdin (`OP<TAB>payload`), one answer per line on stdout.
  Only model files are imported (no Mathlib, no proof files), so this links as a native executable.
-/

def showCodes (cs : List Nat) : String :=
  " ".intercalate (cs.map toString)

def sortNat (xs : List Nat) : List Nat := (xs.toArray.qsort (· < ·)).toList

def bodyOf (payload : String) : Option Stmts :=
  match Sexp.parse payload with
  | some (.list (.atom "body" :: ss)) => Skel.stmtsOfSexp ss
  | _ => none

def hexDigit (n : Nat) : Char := if n < 10 then Char.ofNat (48 + n) else Char.ofNat (87 + n)
def hexByte (n : Nat) : String := String.ofList [hexDigit (n / 16), hexDigit (n % 16)]

def tyName : Lex.Ty → String
  | .void => "void" | .i8 => "i8" | .i16 => "i16" | .i32 => "i32" | .i64 => "i64" | .i128 => "i128"
  | .u8 => "u8" | .u16 => "u16" | .u32 => "u32" | .u64 => "u64" | .u128 => "u128" | .usize => "usize"
  | .char8 => "char8" | .bool => "bool"

def showTok : Lex.Tok → String
  | .sym s => "S" ++ String.ofList s
  | .kw s => "K" ++ String.ofList s
  | .ty t => "T" ++ tyName t
  | .ident s => "I" ++ String.ofList s
  | .builtin s => "B" ++ String.ofList s
  | .dec n => "D" ++ toString n
  | .bit n => "X" ++ toString n
  | .suf n t => "F" ++ toString n ++ ":" ++ tyName t
  | .chr b => "C" ++ toString b
  | .bool b => if b then "L1" else "L0"
  | .str bs => "Q" ++ String.join (bs.map hexByte)
  | .err c => "E" ++ toString c

def showLTok (t : Lex.LTok) : String :=
  showTok t.tok ++ "@" ++ toString t.start ++ "-" ++ toString t.stop ++ "/" ++ toString t.line ++ ":" ++ toString t.col

def tyOfName (s : String) : Option Lex.Ty :=
  match s with
  | "i8" => some .i8 | "i16" => some .i16 | "i32" => some .i32 | "i64" => some .i64 | "i128" => some .i128
  | "u8" => some .u8 | "u16" => some .u16 | "u32" => some .u32 | "u64" => some .u64 | "u128" => some .u128
  | "usize" => some .usize | "char8" => some .char8 | "bool" => some .bool | "void" => some .void
  | _ => none

def c09 (payload : String) : String :=
  match Sexp.parse payload with
  | some (.list [.atom "lit32", .atom ty, .atom neg, .str sp]) =>
    -- the wasm32 target: lint and constant only (nothing is run there)
    match tyOfName ty with
    | none => "bad-request"
    | some t =>
      match Lit.outcomeOn true (2 ^ 64) t (neg == "1") sp with
      | .error c => "error " ++ toString c
      | .typeMismatch => "mismatch"
      | .value p l => "value " ++ toString p ++ " lint=" ++ (if l then "1" else "0")
  | some (.list [.atom "lit", .atom ty, .atom neg, .str sp]) =>
    match tyOfName ty with
    | none => "bad-request"
    | some t =>
      match Lex.lex sp with
      | [lt] =>
        match lt.tok with
        | .err c => "error " ++ toString c
        | tok =>
          match Lit.primary tok with
          | none => "not-a-literal"
          | some node0 =>
            let node := if neg == "1" then Lit.negate node0 else node0
            match Lit.outcome (2 ^ 64) t (neg == "1") sp with
            | .error c => "error " ++ toString c
            | .typeMismatch => "mismatch"
            | .value p l =>
              "value " ++ toString p ++ " lint=" ++ (if l then "1" else "0") ++ " denotes=" ++ toString (Lit.denotes node)
                ++ " inrange=" ++ (if Lit.inRange t (Lit.denotes node) then "1" else "0")
      | _ => "not-one-token"
  | some (.list [.atom "str", .str sp]) =>
    let toks := Lex.lex sp
    match toks.find? (fun t => match t.tok with | .err _ => true | _ => false) with
    | some e => match e.tok with | .err c => "error " ++ toString c | _ => "?"
    | none =>
      let bytes := toks.foldl (fun acc t => match t.tok with
        | .str bs => acc ++ bs
        | .chr b => acc ++ [b]
        | _ => acc) []
      if toks.all (fun t => match t.tok with | .str _ => true | .chr _ => true | _ => false) then
        "bytes " ++ String.join (bytes.map hexByte)
      else "not-literals"
  | _ => "bad-request"

def optAtom (s : String) : Option String := if s == "-" then none else some s

def c18 (payload : String) : String :=
  match Sexp.parse payload with
  | some (.list [.atom "inv", .atom sub, .atom flag, .atom env, .atom cfg, .atom ok, .atom be, .atom silent, .atom verbose]) =>
    let sub? : Option Cli.Sub := match sub with
      | "build" => some .build | "run" => some .run | "emit" => some .emit | _ => none
    let be? : Option Cli.BackendResult :=
      if be == "signalled" then some .signalled else if be == "spawnfailed" then some .spawnFailed
      else be.toNat?.map .exited
    match sub?, be? with
    | some sub, some be =>
      let i : Cli.Invocation := { sub := sub, flagBackend := optAtom flag, envBackend := optAtom env, cfgBackend := optAtom cfg,
                                  compileOk := ok == "1", backend := be, silent := silent == "1", verbose := verbose == "1" }
      "exit0=" ++ (if Cli.exitZero i then "1" else "0") ++ " backend=" ++ ((Cli.chosenBackend i).getD "-")
        ++ " invoked=" ++ (if Cli.backendInvoked i then "1" else "0")
        ++ " output=" ++ (match Cli.shownOutput i with | some n => toString n | none => "-")
        ++ " diags=" ++ (if Cli.diagnosticsShown i then "1" else "0")
    | _, _ => "bad-request"
  | _ => "bad-request"

def c12 (payload : String) : String :=
  -- (c12 (mods (m (d name kind pub)*)*) (imports (i j)*) (refs (i name)*))
  match Sexp.parse payload with
  | some (.list [.atom "c12", .list (.atom "mods" :: ms), .list (.atom "imports" :: is), .list (.atom "refs" :: rs)]) =>
    let declOf : Sexp → Option Imports.Decl
      | .list [.atom "d", n, .atom k, .atom p] => do
        let kind ← (match k with
          | "fn" => some Imports.Kind.function | "head" => some .functionHead | "const" => some .constant
          | "struct" => some .structure | _ => none)
        some { name := (← n.toNat?), kind := kind, pub := p == "1" }
      | _ => none
    let mods? : Option (List (List Imports.Decl)) := ms.mapM (fun m => match m with
      | .list (.atom "m" :: ds) => ds.mapM declOf
      | _ => none)
    let pairOf : Sexp → Option (Nat × Nat)
      | .list [a, b] => do some ((← a.toNat?), (← b.toNat?))
      | _ => none
    match mods?, is.mapM pairOf, rs.mapM pairOf with
    | some mods, some imports, some refs =>
      let own : Imports.Mods := fun k => mods.getD k []
      let order := imports.filter (fun p => p.1 != p.2)
      let σ := Imports.expand own order
      " ".intercalate (refs.map (fun r => if (σ r.1).any (fun d => d.name == r.2) then "1" else "0"))
    | _, _, _ => "bad-request"
  | _ => "bad-request"

def unhexGo : List Char → List UInt8 → List UInt8
  | a :: b :: rest, acc => unhexGo rest (UInt8.ofNat (Sexp.hexVal a * 16 + Sexp.hexVal b) :: acc)
  | _, acc => acc.reverse

def unhexStr (h : String) : String :=
  match String.fromUTF8? (ByteArray.mk (unhexGo h.toList []).toArray) with
  | some s => s
  | none => ""

def synTokOf (w : String) : Option Syn.Tok :=
  match w.splitOn ":" with
  | [k, t, v, vt] => do
    let kind ← Flat.Kind.ofName k
    let val ← v.toNat?
    some { kind := kind, text := unhexStr t, val := val, vt := vt }
  | _ => none

def showLTy : Gen.Addr.LTy → String
  | .int b => "i" ++ toString b
  | .arr n e => "[" ++ toString n ++ " x " ++ showLTy e ++ "]"
  | .zarr e => "[0 x " ++ showLTy e ++ "]"
  | .ptr t => showLTy t ++ "*"
  | .slice e => "{ [0 x " ++ showLTy e ++ "]*, i64 }"
  | .struct i => "%T" ++ toString i
  | .bad => "?"

def showIdx : Option Nat → String
  | none => "e"
  | some k => "c" ++ toString k

def showOp : Gen.Addr.Op → String
  | .gep ty idx => "gep " ++ showLTy ty ++ " " ++ " ".intercalate (idx.map showIdx)
  | .load ty => "load " ++ showLTy ty
  | .ext0 ty => "ext0 " ++ showLTy ty

def ustepOfSexp : Sexp → Option Types.Ty.UStep
  | .atom "e" => some .elem
  | .list [.atom "m", k] => k.toNat?.map .member
  | _ => none

def memberOfSexp : Sexp → Option (Nat × Nat × Types.Ty)
  | .list [i, m, t] => do some ((← i.toNat?), (← m.toNat?), (← Types.tyOfSexp 32 t))
  | _ => none

/-- `(addr local|param <type> (<step>...) (<struct> <member> <type>)...)`: the instructions of `generate_storage_address` -/
def addrOp : Sexp → String
  | .list (.atom "addr" :: .atom kind :: t :: .list path :: members) =>
    -- trailing `d` atoms: the Autoderefs that an access through a pointer leaf appends
    let trail := (path.reverse.takeWhile (fun x => match x with | .atom "d" => true | _ => false)).length
    match Types.tyOfSexp 32 t, (path.take (path.length - trail)).mapM ustepOfSexp, members.mapM memberOfSexp with
    | some ty, some p, some tbl =>
      let ms : Types.Ty.Members := fun i m => (tbl.find? (fun x => x.1 == i && x.2.1 == m)).map (·.2.2)
      match Gen.Addr.elaborateG ms ty p with
      | none => "noelab"
      | some (steps0, leaf0) =>
        let steps := steps0 ++ List.replicate trail (Gen.Addr.GStep.auto false)
        let leaf := (List.range trail).foldl (fun (t : Types.Ty) _ => match t with | .pointer d => d | t => t) leaf0
        let fs := Gen.Addr.lowerFields ms
        let r := if kind == "param" then Gen.Addr.runT fs (Gen.Addr.lower ty) [] true steps
                 else Gen.Addr.runT fs (.ptr (Gen.Addr.lower ty)) [some 0] false steps
        match r with
        | none => "illtyped leaf=" ++ showLTy (Gen.Addr.lower leaf)
        | some (ops, a) => "; ".intercalate (ops.map showOp) ++ " => " ++ showLTy a ++ " leaf=" ++ showLTy (Gen.Addr.lower leaf)
    | _, _, _ => "bad-request"
  | _ => "bad-request"

def handle (op payload : String) : String :=
  match op with
  | "C04" =>
    match bodyOf payload with
    | some b => "codes=" ++ showCodes (sortNat (Labels.goBody b)) ++ " spec=" ++ showCodes (sortNat (Labels.specBody b))
    | none => "bad-request"
  | "C06" =>
    match bodyOf payload with
    | some b => "codes=" ++ showCodes (sortNat (Place.chkBody b)) ++ " spec=" ++ showCodes (sortNat (Place.specBody b))
        ++ " lints=" ++ showCodes (Place.lintBody b) ++ " speclints=" ++ showCodes (Place.specLintBody b)
    | none => "bad-request"
  | "C05" =>
    match Sexp.parse payload with
    | some (.list [.atom "fn", .list (.atom "consts" :: cs), .list (.atom "params" :: ps), .list (.atom "body" :: ss)]) =>
      match Skel.names cs, Skel.names ps, Skel.stmtsOfSexp ss with
      | some cs, some ps, some b =>
        "codes=" ++ showCodes (sortNat (Vars.goFunction cs ps b)) ++ " labels=" ++ showCodes (sortNat (Labels.goBody b))
      | _, _, _ => "bad-request"
    | _ => "bad-request"
  | "run" =>
    match Sexp.parse payload with
    | some sx => match Sem.progOf sx with
      | some p => Sem.showResult (Sem.run p 200000)
      | none => "bad-program"
    | none => "bad-request"
  | "sizeof" =>
    match Sexp.parse payload with
    | some sx => match Layout.ofSexp 64 sx with
      | some t => toString (Layout.sizeOf t)
      | none => "bad-type"
    | none => "bad-request"
  | "wordsize" =>
    match Sexp.parse payload with
    | some (.list xs) => match xs.mapM Sexp.toNat? with
      | some sizes => toString (Layout.typerWordSize sizes)
      | none => "bad-request"
    | _ => "bad-request"
  | "C12" => c12 payload
  | "cf" => CF.answer payload
  | "cycle" =>
    match Sexp.parse payload with
    | some (.list [.atom "graph", .list (.atom "ids" :: ids), .list (.atom "edges" :: es)]) =>
      let pairOf : Sexp → Option (Nat × Nat)
        | .list [a, b] => do some ((← a.toNat?), (← b.toNat?))
        | _ => none
      match ids.mapM Sexp.toNat?, es.mapM pairOf with
      | some ids, some edges =>
        "cyclical=" ++ ",".intercalate ((Order.cyclical edges).map toString) ++ " n=" ++ toString ids.length ++ " hascycle=" ++
          (if Order.hasCycle edges then "1" else "0")
      | _, _ => "bad-request"
    | _ => "bad-request"
  | "dparse" =>
    -- comma-separated BaseToken names (with the two trailing EndOfSource)
    match (payload.splitOn ",").mapM Flat.Kind.ofName with
    | none => "bad-kind"
    | some ts =>
      let r := Flat.parseAll ts
      let errs := r.errors.map (fun (e, pos) => s!"{(reprStr e).replace "Flat.PErr." ""}@{pos}")
      s!"nodes={r.nodes.length} decls={r.decls} assert={r.assertFailed} fuel={r.outOfFuel} errors={",".intercalate errs} tags={",".intercalate (r.nodes.map Flat.Tag.name)}"
  | "synparse" | "synprint" | "synlayout" =>
    -- tokens `Kind:hex(text):value:type` separated by spaces -> canonical tree / the rebuilder's tokens of that tree
    match (payload.splitOn " ").mapM synTokOf with
    | none => "bad-token"
    | some ts =>
      match Syn.parseRef ts with
      | none => "reject"
      | some ds =>
        if op == "synparse" then "ok " ++ Syn.showModule ds
        else if op == "synlayout" then
          let r := Layout.encModuleR ds
          "ok " ++ ",".intercalate (r.1.map Layout.showFN) ++ " " ++ ",".intercalate (r.2.map toString)
        else "ok " ++ " ".intercalate ((Syn.printModule ds).map Syn.showTok)
  | "header" =>
    match Sexp.parse payload with
    | some (.list ns) =>
      match ns.mapM Flat.nodeOfSexp with
      | some nodes => " ".intercalate ((Flat.buildHeader nodes).map Flat.showNode)
      | none => "bad-node"
    | _ => "bad-request"
  | "mut" =>
    -- (write <base> <step>*)
    match Sexp.parse payload with
    | some (.list (.atom "write" :: .atom base :: steps)) =>
      let base? : Option Mut.Base := match base with
        | "variable" => some .variable | "viewVariable" => some .viewVariable | "constant" => some .constant
        | "parameter" => some .parameter | _ => none
      let stepOf : Sexp → Option Mut.Step
        | .atom "element" => some .element | .atom "member" => some .member | .atom "desliceByView" => some .desliceByView
        | .atom "desliceByPointer" => some .desliceByPointer | .atom "autoderef" => some .autoderef
        | .atom "autoview" => some .autoview | _ => none
      match base?, steps.mapM stepOf with
      | some b, some ss => toString (Mut.writeVerdict b ss)
      | _, _ => "bad-request"
    | _ => "bad-request"
  | "optype" =>
    -- (bin op L R) | (un op T) | (cast s d) | (ptr op)   with operand types  prim | (ptr T) | other
    let rec otOf : Nat → Sexp → Option Types.OT
      | 0, _ => none
      | _, .atom "other" => some .other
      | _, .atom a => (Types.primOf a).map .prim
      | fuel + 1, .list [.atom "ptr", t] => (otOf fuel t).map .pointer
      | _, _ => none
    match Sexp.parse payload with
    | some (.list [.atom "bin", .atom op, l, r]) =>
      match Types.opOf op, otOf 8 l, otOf 8 r with
      | some op, some l, some r => toString (Types.binaryVerdict op l r)
      | _, _, _ => "bad-request"
    | some (.list [.atom "un", .atom op, t]) =>
      match Types.opOf op, otOf 8 t with
      | some op, some t => toString (Types.unaryVerdict op t)
      | _, _ => "bad-request"
    | some (.list [.atom "cast", .atom s, .atom d]) =>
      match Types.primOf s, Types.primOf d with
      | some s, some d => toString (Types.castVerdict s d)
      | _, _ => "bad-request"
    | some (.list [.atom "ptr", .atom op]) =>
      match Types.opOf op with
      | some op => toString (Types.binaryVerdict op (.pointer (.prim .i32)) (.pointer (.prim .i32)))
      | none => "bad-request"
    | _ => "bad-request"
  | "legal" =>
    match Sexp.parse payload with
    | some (.list [.atom "legal", .atom pos, t]) =>
      match Types.positionOf pos, Types.vtOfSexp 32 t with
      | some p, some vt => toString (Types.legality p vt)
      | _, _ => "bad-request"
    | _ => "bad-request"
  | "addr" =>
    match Sexp.parse payload with
    | some x => addrOp x
    | none => "bad-request"
  | "agree" =>
    match Sexp.parse payload with
    | some (.list [.atom "agree", a, b]) =>
      match Types.tyOfSexp 32 a, Types.tyOfSexp 32 b with
      | some x, some y =>
        let bit (v : Bool) : String := if v then "1" else "0"
        "declared=" ++ bit (Types.Ty.canBeDeclaredAs x y) ++ " conc=" ++ bit (Types.Ty.conc x y)
          ++ " coerce=" ++ bit (Types.Ty.coerceInto x y) ++ " coerceaddr=" ++ bit (Types.Ty.coerceAddressInto x y)
          ++ " autoderef=" ++ bit (Types.Ty.autoderef x y)
      | _, _ => "bad-request"
    | _ => "bad-request"
  | "update" =>
    match Sexp.parse payload with
    | some (.list [.atom "update", a, b, .atom sa, .atom na]) =>
      match Types.tyOfSexp 32 a, Types.tyOfSexp 32 b with
      | some x, some y =>
        match Types.Ty.update x y (sa == "1") (na == "1") with
        | none => "none"
        | some r => if r == x then "old" else if r == y then "new" else "other"
      | _, _ => "bad-request"
    | _ => "bad-request"
  | "C18" => c18 payload
  | "C09" => c09 payload
  | "lex" =>
    match Sexp.parse payload with
    | some (.str cs) => " ".intercalate ((Lex.lex cs).map showLTok)
    | _ => "bad-request"
  | _ => "bad-op"

partial def loop (h : IO.FS.Stream) (out : IO.FS.Stream) : IO Unit := do
  let line ← h.getLine
  if line.isEmpty then return ()
  let line := (line.dropEndWhile (· == '\n')).toString
  match line.splitOn "\t" with
  | [op, payload] => out.putStrLn (handle op payload)
  | _ => out.putStrLn "bad-line"
  loop h out

def main : IO Unit := do
  let i ← IO.getStdin
  let o ← IO.getStdout
  loop i o
  o.flush
