import PenneModel.Sexp
import PenneModel.Skel
import PenneModel.Scope.Labels
import PenneModel.Place.Syntax
import PenneModel.Scope.Vars
/-
  Model driver: one request per line on stdin (`OP<TAB>payload`), one answer per line on stdout.
  Only model files are imported (no Mathlib, no proof files), so this links as a native executable.
-/

def showCodes (cs : List Nat) : String :=
  " ".intercalate (cs.map toString)

def sortNat (xs : List Nat) : List Nat := (xs.toArray.qsort (· < ·)).toList

def bodyOf (payload : String) : Option Stmts :=
  match Sexp.parse payload with
  | some (.list (.atom "body" :: ss)) => Skel.stmtsOfSexp ss
  | _ => none

def handle (op payload : String) : String :=
  match op with
  | "C04" =>
    match bodyOf payload with
    | some b => "codes=" ++ showCodes (sortNat (Labels.goBody b)) ++ " spec=" ++ showCodes (sortNat (Labels.specBody b))
    | none => "bad-request"
  | "C06" =>
    match bodyOf payload with
    | some b => "codes=" ++ showCodes (sortNat (Place.chkBody b)) ++ " spec=" ++ showCodes (sortNat (Place.specBody b))
        ++ " lints=" ++ showCodes (Place.lintBody b) ++ " speclints=" ++ showCodes (Place.specLintBody b)
    | none => "bad-request"
  | "C05" =>
    match Sexp.parse payload with
    | some (.list [.atom "fn", .list (.atom "consts" :: cs), .list (.atom "params" :: ps), .list (.atom "body" :: ss)]) =>
      match Skel.names cs, Skel.names ps, Skel.stmtsOfSexp ss with
      | some cs, some ps, some b =>
        "codes=" ++ showCodes (sortNat (Vars.goFunction cs ps b)) ++ " labels=" ++ showCodes (sortNat (Labels.goBody b))
      | _, _, _ => "bad-request"
    | _ => "bad-request"
  | _ => "bad-op"

partial def loop (h : IO.FS.Stream) (out : IO.FS.Stream) : IO Unit := do
  let line ← h.getLine
  if line.isEmpty then return ()
  let line := (line.dropEndWhile (· == '\n')).toString
  match line.splitOn "\t" with
  | [op, payload] => out.putStrLn (handle op payload)
  | _ => out.putStrLn "bad-line"
  loop h out

def main : IO Unit := do
  let i ← IO.getStdin
  let o ← IO.getStdout
  loop i o
  o.flush
