import PenneModel.Sexp
import PenneModel.Skel
import PenneModel.Scope.Labels
import PenneModel.Props.C04
import PenneModel.Place.Syntax
import PenneModel.Props.C06
import PenneModel.Scope.Vars
import PenneModel.Props.C05
