import PenneModel.Sexp
import PenneModel.Skel
import PenneModel.Scope.Labels
import PenneModel.Props.C04
